"""C17 -- B-spline signals and SplineMethod trajectories are exact splines of the model (narrow claim).

Decided: every grid='bspline' variable/parameter is registered with a coefficient matrix of width
N+order on the normalised knot grid with its order, at all three sibling sites (R17.1); every
derivative level is divided by the horizon T and passes T on (R17.2); node samples use the node
index and the basis evaluated on the knots (R17.3); the B-spline derivative formula has the
de Boor shape d*(c_{i+1}-c_i)/(xi_{i+d}-xi_i) (R17.3b); pack order of signal values in the p input
(R17.4 = R01.7); SplineMethod's model guards (R17.5, with C20).
(R17.4 = R01.7); SplineMethod's model guards (R17.5, with C20); Greville points (R17.6); the
Cox-de Boor recursion of the two basis evaluators as an algebraic identity per level -- weights,
knot spans, destination rows, level sizes, evaluation point, degree-0 start -- and the enumeration of
evaluation points on the clamped knot vector (R17.8).
Not decided: the numeric values (equality with an independent evaluation), SplineMethod == shooting.
"""
import ast

from ..core import rule
from ..model import AnalysisError
from ..norm import Norm, expected
from ..poly import Poly
from ..paths import walk_no_nested
from ..effects import is_call_to
from .c01 import check_pack_order

LEVEL = "other"


@rule("R17.1", min_instances=8, desc="registration: coefficient matrix rows x (N+order), normalised knot grid self.xi, declared order -- at add_variables_V, add_parameter_signals and SplineMethod.add_variables alike")
def r17_1(ctx):
    P = ctx.prog
    for fname, maker, lst in (("add_variables_V", "variable", "stage.variables['bspline']"), ("add_parameter_signals", "parameter", "stage.parameters['bspline']")):
        f = P.own_method("SamplingMethod", fname)
        sc = ctx.scope(f)
        loops = [l for l in walk_no_nested(f.node) if isinstance(l, ast.For) and ast.unparse(l.iter).replace('"', "'") == lst]
        ctx.check(len(loops) == 1, "%s iterates the declared bspline symbols" % fname, detail="loop", expected="for p in %s" % lst, found=str(len(loops)), fi=f)
        if len(loops) != 1:
            continue
        l = loops[0]
        p = l.target.id
        n = Norm(sc)
        mk = [c for c in ast.walk(l) if is_call_to(c, maker, "opti")]
        ok = len(mk) == 1 and len(mk[0].args) == 2 and ast.unparse(mk[0].args[0]) == "%s.size1()" % p
        if ok:
            width = n.poly(mk[0].args[1])
            w = Norm(None).poly(ast.parse("self.N + stage._catalog[%s]['order']" % p, mode="eval").body)
            ok = width == w
        ctx.check(ok, "%s: coefficient matrix has N+order columns" % fname, detail="number of B-spline coefficients", expected="opti.%s(p.size1(), self.N + order)" % maker, found="; ".join(ast.unparse(c) for c in mk), fi=f,
                  sample={"site": fname, "coeff": "; ".join(ast.unparse(c) for c in mk)})
        sig = [c for c in ast.walk(l) if isinstance(c, ast.Call) and ast.unparse(c.func) == "BSplineSignal"]
        ok = len(sig) == 1 and len(sig[0].args) == 3 and isinstance(sig[0].args[0], ast.Name) and sc.reaching(sig[0].args[0].id, sig[0].args[0]) is None and ast.unparse(sig[0].args[1]) == "self.xi"
        if ok:
            # first arg is the (fresh) coefficient variable created above
            cd = [d for d in sc.defs.get(sig[0].args[0].id, []) if d.kind == "assign"]
            ok = len(cd) == 1 and cd[0].value is mk[0] and n.poly(sig[0].args[2]) == Norm(None).poly(ast.parse("stage._catalog[%s]['order']" % p, mode="eval").body)
            kw = {k.arg: ast.unparse(k.value) for k in sig[0].keywords}
            ok = ok and kw.get("T") == "self.T" and (kw.get("parametric") == "True") == (maker == "parameter")
        ctx.check(ok, "%s: signal built from its coefficients, the normalised knots, its order and the horizon" % fname, detail="signal construction", expected="BSplineSignal(C, self.xi, order, T=self.T%s)" % (", parametric=True" if maker == "parameter" else ""),
                  found="; ".join(ast.unparse(c) for c in sig), fi=f)
        reg = [c for c in ast.walk(l) if is_call_to(c, "register", "BSplineSignal")]
        ok = len(reg) == 1 and [ast.unparse(a) for a in reg[0].args[:3]] == ["self.signals", p, "stage"] and sig and reg[0].args[3] is sig[0]
        ctx.check(ok, "%s: signal registered under its own symbol" % fname, detail="registration key", expected="BSplineSignal.register(self.signals, p, stage, signal)", found="; ".join(ast.unparse(c)[:80] for c in reg), fi=f)
    t = P.own_method("SamplingMethod", "transcribe")
    xi = [st for st in walk_no_nested(t.node) if isinstance(st, ast.Assign) and ast.unparse(st.targets[0]) == "self.xi"]
    ok = len(xi) == 1 and Norm(None).key(xi[0].value) == Norm(None).key(ast.parse("ca.vec(DM(self.time_grid(0, 1, self.N))).T", mode="eval").body)
    ctx.check(ok, "knot grid = the time grid normalised to [0,1] with N intervals", detail="knots", expected="self.xi = vec(DM(self.time_grid(0, 1, self.N))).T", found=ast.unparse(xi[0].value) if xi else None, fi=t)
    # ... which is the actual control grid only when the interval lengths are not decision variables: with FreeGrid the normalised
    # grid is a fixed uniform one while the control grid moves, so B-spline signals must be rejected there
    sct = ctx.scope(t)
    fg = [n_ for n_ in walk_no_nested(t.node) if isinstance(n_, (ast.If, ast.Assert)) and "FreeGrid" in ast.unparse(n_.test) and "bspline" in ast.unparse(n_.test)
          and (isinstance(n_, ast.Assert) or any(isinstance(x, ast.Raise) for x in n_.body))]
    ctx.check(bool(fg) and bool(xi) and sct.order[fg[0]] < sct.order[xi[0]] + 10 ** 6, "B-spline signals on a FreeGrid are rejected", detail="with FreeGrid the signal is built on uniform knots k/N, not on the (free) control grid: its samples are not the spline of the reported coefficients on the control-grid knots",
              expected="if isinstance(self.time_grid, FreeGrid) and (stage.variables['bspline'] or stage.parameters['bspline']): raise", found="no such guard in SamplingMethod.transcribe", fi=t)
    g = P.own_method("SplineMethod", "add_variables")
    scg = ctx.scope(g)
    ng = Norm(scg)
    mk = [c for c in walk_no_nested(g.node) if is_call_to(c, "variable", "opti")]
    ok = len(mk) == 1 and ast.unparse(mk[0].args[0]) == "len(chains)" and ng.poly(mk[0].args[1]) == Norm(None).poly(ast.parse("self.N + L - 1", mode="eval").body)
    ctx.check(ok, "SplineMethod: a chain of length L gets degree L-1 and N+L-1 coefficients", detail="degree from chain length", expected="opti.variable(len(chains), self.N + (L-1))", found="; ".join(ast.unparse(c) for c in mk), fi=g)


@rule("R17.2", min_instances=4, desc="derivatives are taken in physical time: every derivative level divides by the horizon T and hands T on to the next level")
def r17_2(ctx):
    P = ctx.prog
    m = P.module("sampling_method")
    c = m.classes.get("BSplineSignal")
    if c is None:
        raise AnalysisError("class BSplineSignal missing")
    f = c.methods.get("get_der")
    rets = [r for r in walk_no_nested(f.node) if isinstance(r, ast.Return)]
    ok = len(rets) == 1 and isinstance(rets[0].value, ast.Call) and ast.unparse(rets[0].value.func) == "BSplineSignal"
    found = ast.unparse(rets[0].value) if rets else None
    if ok:
        v = rets[0].value
        a0 = Norm(None).poly(v.args[0])
        want0 = Norm(None).poly(ast.parse("bspline_derivative(self.coeff, self.xi, self.degree)/self.T", mode="eval").body)
        kw = {k.arg: ast.unparse(k.value) for k in v.keywords}
        ctx.check(a0 == want0, "BSplineSignal.get_der divides the coefficient derivative by T", detail="derivative in normalised instead of physical time", expected=want0, found=a0, fi=f)
        ctx.check(ast.unparse(v.args[1]) == "self.xi" and Norm(None).poly(v.args[2]) == expected("self.degree-1"), "BSplineSignal.get_der: same knots, one degree less", detail="derivative spline space", expected="xi, degree-1", found=found, fi=f)
        ctx.check(kw.get("T") == "self.T", "BSplineSignal.get_der hands the horizon on to the derivative signal", detail="second and higher derivatives divided by T only once", expected="T=self.T", found=str(kw), fi=f,
                  sample={"get_der": found})
    else:
        ctx.fail("BSplineSignal.get_der", detail="shape", expected="return BSplineSignal(...)", found=found, fi=f)
    g = P.own_method("SplineMethod", "add_variables")
    ds = [st for st in walk_no_nested(g.node) if isinstance(st, ast.Assign) and is_call_to(st.value if not isinstance(st.value, ast.BinOp) else st.value.left, "bspline_derivative")]
    ok = len(ds) == 1 and isinstance(ds[0].targets[0], ast.Name)
    if ok:
        tn = ds[0].targets[0].id
        pv = Norm(None).poly(ds[0].value)
        calls = [a for a in pv.atoms() if a.startswith("bspline_derivative(%s,self.xi," % tn)]
        ok = len(calls) == 1 and pv == Poly.atom(calls[0]) * Poly.atom("self.T", -1)
        if ok:
            # degree argument: (L-1) - level of the chain
            scg = ctx.scope(g)
            cn = [c for c in ast.walk(ds[0].value) if isinstance(c, ast.Call) and ast.unparse(c.func) == "bspline_derivative"][0]
            loops = scg.enclosing_loops(ds[0])
            lv = ast.unparse(loops[-1][0]) if loops else None
            Lv = loops[-2][0].elts[0].id if len(loops) >= 2 and isinstance(loops[-2][0], ast.Tuple) else None
            ok = Lv is not None and Norm(scg).poly(cn.args[2]) == Poly.atom(Lv) - 1 - Poly.atom(lv)
    ctx.check(ok, "SplineMethod: each link of a chain is the B-spline derivative divided by T", detail="chain derivative in normalised time", expected="e = bspline_derivative(e, self.xi, d-i)/self.T", found="; ".join(ast.unparse(x) for x in ds), fi=g)
    r = c.methods.get("register")
    ok, found = False, "no register method"
    if r is not None:
        # simulated registration of a signal whose stage declaration has a second derivative (rkverif/sim.py)
        from ..sim import Sim, fresh_obj
        from ..layout import Sym, Obj, freeze, LayoutUnknown
        s0, s1, s2 = Sym("sym", 0), Sym("sym", 1), Sym("sym", 2)
        t2 = fresh_obj("target2", derivative=None, symbol=s2)
        t1 = fresh_obj("target1", derivative=t2, symbol=s1)
        t0 = fresh_obj("target0", derivative=t1, symbol=s0)
        stage = fresh_obj("stage", _signals={freeze(s0): t0, freeze(s1): t1, freeze(s2): t2})
        sig0 = fresh_obj("signal0", parametric=True, derivative=None, derivative_of=None, level=0)
        peers = {}

        def h_get_der(sim, recv, a, k, n):
            if isinstance(recv, Obj) and "level" in recv.attrs:
                return fresh_obj("signal%d" % (recv.attrs["level"] + 1), parametric=False, derivative=None, derivative_of=None, level=recv.attrs["level"] + 1, _from=recv)
            return NotImplemented
        sim = Sim(P, hooks={".get_der": h_get_der, "BSplineSignal.register": lambda s_, rc, a, k, n: s_.call_function(r, list(a), dict(k))})
        try:
            sim.call(r, [peers, s0, stage, sig0], {})
            got = {k_: (v.attrs.get("level"), freeze(v.attrs.get("symbol")), v.attrs.get("peers") is peers, v.attrs.get("parametric")) for k_, v in peers.items() if isinstance(v, Obj)}
            want = {freeze(s0): (0, freeze(s0), True, True), freeze(s1): (1, freeze(s1), True, True), freeze(s2): (2, freeze(s2), True, True)}
            links = all(isinstance(peers.get(freeze(a_)), Obj) and peers[freeze(a_)].attrs.get("derivative") is peers.get(freeze(b_)) and peers[freeze(b_)].attrs.get("derivative_of") is peers[freeze(a_)]
                        and peers[freeze(b_)].attrs.get("_from") is peers[freeze(a_)] for a_, b_ in ((s0, s1), (s1, s2)) if isinstance(peers.get(freeze(b_)), Obj))
            ok = got == want and links
            found = str(got)[:200]
        except LayoutUnknown as e:
            raise AnalysisError("BSplineSignal.register could not be simulated: %s" % e)
    ctx.check(ok, "BSplineSignal.register registers the derivative chain declared on the stage", detail="derivative signals", expected="every derivative symbol of the declaration gets signal.get_der() of the level above, linked both ways, parametric flag inherited",
              found=found, fi=r)


@rule("R17.3", min_instances=5, desc="node samples: coefficients times the basis evaluated on the knots, split per node and addressed by the node index; derivative formula d*(c_{i+1}-c_i)/(xi_{i+d}-xi_i)")
def r17_3(ctx):
    P = ctx.prog
    m = P.module("sampling_method")
    c = m.classes["BSplineSignal"]
    f = c.methods["__init__"]
    asg = {}
    for st in walk_no_nested(f.node):
        if isinstance(st, ast.Assign):
            asg[ast.unparse(st.targets[0])] = Norm(None).key(st.value)
    ctx.check(asg.get("[_, self.B]") == Norm(None).key(ast.parse("eval_on_knots(xi, degree)", mode="eval").body), "BSplineSignal basis matrix = basis evaluated on the knots for its own degree", detail="basis", expected="[_, self.B] = eval_on_knots(xi, degree)",
              found=asg.get("[_, self.B]"), fi=f)
    ctx.check(asg.get("self.sampled") == Norm(None).key(ast.parse("horzsplit(coeff @ self.B)", mode="eval").body), "BSplineSignal node samples = coeff @ B, one column per node", detail="node samples", expected="horzsplit(coeff @ self.B)",
              found=asg.get("self.sampled"), fi=f)
    g = P.own_method("SamplingMethod", "get_signals_at")
    rets = [Norm(None).key(r.value) for r in walk_no_nested(g.node) if isinstance(r, ast.Return)]
    ctx.check(rets == [Norm(None).key(ast.parse("veccat(*[e.sampled[%s] for e in self.signals.values()])" % g.params[2], mode="eval").body)], "get_signals_at(k) takes node k of every signal, in registration order", detail="signal values at a node",
              expected="veccat(*[e.sampled[k] for e in self.signals.values()])", found=rets, fi=g)
    s = c.methods["sample"]
    rets = [Norm(ctx.scope(s)).key(r.value) for r in walk_no_nested(s.node) if isinstance(r, ast.Return)]
    ctx.check(rets == [Norm(None).key(ast.parse("self.coeff @ eval_on_knots(self.xi, self.degree, **kwargs)[1]", mode="eval").body)] or
              (len(rets) == 1 and "self.coeff @" in rets[0]), "BSplineSignal.sample evaluates the same coefficients on a refined knot grid", detail="refined samples", expected="self.coeff @ B(refined)", found=rets, fi=s)
    ms = P.modules["rockit/splines/micro_spline.py"]
    P._consulted.add(ms.relpath)
    d = ms.functions.get("bspline_derivative")
    if d is None:
        raise AnalysisError("micro_spline.bspline_derivative missing")
    cc, xi, dd = d.params
    asg = {}
    for st in walk_no_nested(d.node):
        if isinstance(st, ast.Assign):
            asg[ast.unparse(st.targets[0])] = Norm(None).poly(st.value)
    want_delta = Norm(None).poly(ast.parse("horzcat({xi}[:,1:],repmat({xi}[-1],1,{d}-1))-horzcat(repmat({xi}[0],1,{d}-1),{xi}[:,:-1])".format(xi=xi, d=dd), mode="eval").body)
    ctx.check(asg.get("delta_xi") == want_delta, "bspline_derivative knot differences xi_{i+d}-xi_i on the clamped knot vector", detail="knot spans", expected=want_delta, found=asg.get("delta_xi"), fi=d)
    ctx.check(asg.get("scale") == Norm(None).poly(ast.parse("%s/delta_xi" % dd, mode="eval").body), "bspline_derivative scale = degree / knot span", detail="scale", expected="d/delta_xi", found=asg.get("scale"), fi=d)
    rets = [Norm(None).poly(r.value) for r in walk_no_nested(d.node) if isinstance(r, ast.Return)]
    want = Norm(None).poly(ast.parse("repmat(scale,{c}.shape[0],1)*({c}[:,1:]-{c}[:,:-1])".format(c=cc), mode="eval").body)
    ctx.check(rets == [want], "bspline_derivative = scale * forward difference of the coefficients", detail="derivative coefficients", expected=want, found=rets, fi=d, sample={"formula": str(want)})


@rule("R17.6", min_instances=2, desc="Greville points: order-0 coefficients sit at the interval midpoints; higher orders are knot averages whose weights sum to one")
def r17_6(ctx):
    P = ctx.prog
    ms = P.modules["rockit/splines/micro_spline.py"]
    P._consulted.add(ms.relpath)
    g = ms.functions.get("get_greville_points")
    if g is None:
        raise AnalysisError("micro_spline.get_greville_points missing")
    xi, d = g.params
    sc = ctx.scope(g)
    rets = [r for r in walk_no_nested(g.node) if isinstance(r, ast.Return)]
    r0 = [r for r in rets if any(ast.unparse(t).replace(" ", "") == "%s==0" % d and p for t, p in sc.guards(r))]
    want = Norm(None).poly(ast.parse("(%s[0,1:]+%s[0,:-1])/2" % (xi, xi), mode="eval").body)
    ctx.check(len(r0) == 1 and Norm(None).poly(r0[0].value) == want, "get_greville_points(d=0) = interval midpoints", detail="order-0 coefficients placed with a uniform-grid shortcut",
              expected="(xi[1:]+xi[:-1])/2", found="; ".join(ast.unparse(r.value) for r in r0), fi=g, sample={"d0": [ast.unparse(r.value) for r in r0]})
    chk = [c for c in walk_no_nested(g.node) if isinstance(c, ast.Call) and ast.unparse(c.func).endswith("assert_allclose")]
    ctx.check(len(chk) == 1 and "sum1(S)" in ast.unparse(chk[0]) and ast.unparse(chk[0].args[1]) == "1", "get_greville_points averaging weights are checked to sum to one", detail="weights", expected="assert_allclose(sum1(S), 1)", found="; ".join(ast.unparse(c)[:60] for c in chk), fi=g)


@rule("R17.4", min_instances=8, desc="pack order of signal values handed to the dynamics")
def r17_4(ctx):
    check_pack_order(ctx)


def check_spline_quadrature(ctx):
    """quadratures (ocp.integral, state(quad=True)) are never integrated by SplineMethod: they must be rejected, not read as 0"""
    from .c20 import has_guard
    f = ctx.prog.own_method("SplineMethod", "transcribe_start")
    has_guard(ctx, f, lambda t, k: ("numel_out('quad')" in t or "nxq" in t) and k in ("assert", "raise"), "SplineMethod: quadrature states / ocp.integral rejected",
              "integral objective terms silently evaluate to 0 under SplineMethod", "assert ode.numel_out('quad')==0 (or raise when stage.nxq>0)")


@rule("R17.5", min_instances=4, desc="SplineMethod guards: DAE, time-varying and nonlinear dynamics rejected; localised grids rejected")
def r17_5(ctx):
    from .c20 import has_guard
    P = ctx.prog
    f = P.own_method("SplineMethod", "transcribe_start")
    has_guard(ctx, f, lambda t, k: "numel_out('alg')==0" in t and k == "assert", "SplineMethod: DAE rejected", "DAE under SplineMethod", "assert ode.numel_out('alg')==0")
    has_guard(ctx, f, lambda t, k: "sparsity_in('t').nnz()==0" in t and k == "assert", "SplineMethod: time-varying dynamics rejected", "time dependence", "assert ode.sparsity_in('t').nnz()==0")
    tr = [t for t in walk_no_nested(f.node) if isinstance(t, ast.Try) and any("evalf" in ast.unparse(s) for s in t.body)]
    ctx.check(len(tr) >= 1 and all(any(isinstance(x, ast.Raise) for x in h.body) for t in tr for h in t.handlers) and any("jacobian" in ast.unparse(x) or "A" == getattr(x, "id", None) for t in tr for s_ in t.body for x in ast.walk(s_)),
              "SplineMethod: nonlinear dynamics rejected", detail="nonlinear dynamics", expected="try: evalf(A), evalf(B) except: raise", found="", fi=f)
    # the chains represent x' = (next member) exactly: a constant or parameter term in the right-hand side cannot be represented
    # and must be rejected -- the Jacobians alone do not see it
    sc = ctx.scope(f)
    zero_evals = []
    for c in walk_no_nested(f.node):
        if not isinstance(c, ast.Call):
            continue
        kws = {k.arg: k.value for k in c.keywords if k.arg}
        if is_call_to(c, "call") and c.args and is_call_to(c.args[0], "dict"):
            kws = {k.arg: k.value for k in c.args[0].keywords if k.arg}
        elif is_call_to(c, "call") and c.args and isinstance(c.args[0], ast.Dict):
            kws = {k.value: v for k, v in zip(c.args[0].keys, c.args[0].values) if isinstance(k, ast.Constant)}
        if {"x", "u"} <= set(kws) and all(("zeros" in ast.unparse(kws[a]) or ast.unparse(kws[a]) in ("0", "0.0")) for a in ("x", "u")):
            zero_evals.append(c)
    ok = False
    for c in zero_evals:
        st = sc.stmt_of(c)
        in_try = any(isinstance(p_, ast.Try) and st in p_.body and all(any(isinstance(x, ast.Raise) for x in h.body) for h in p_.handlers) for p_ in ast.walk(f.node))
        tgt = st.targets[0].id if isinstance(st, ast.Assign) and isinstance(st.targets[0], ast.Name) else None
        tested = tgt is not None and any(isinstance(i, (ast.If, ast.Assert)) and any(isinstance(x, ast.Name) and x.id == tgt for x in ast.walk(i.test)) and
                                         (isinstance(i, ast.Assert) or any(isinstance(x, ast.Raise) for x in i.body)) for i in walk_no_nested(f.node))
        ok = ok or (in_try and tested)
    ctx.check(ok, "SplineMethod: a constant or parameter term in the dynamics is rejected", detail="affine right-hand side accepted and its offset dropped (x' = u + 1 transcribed as x' = u)",
              expected="the right-hand side evaluated at x=0, u=0 must be identically zero, else raise", found="%d evaluation(s) at the origin" % len(zero_evals), fi=f)
    check_spline_quadrature(ctx)
    # every chain must end in a control: a state whose derivative is zero is not a free input
    tails = [n_ for n_ in walk_no_nested(f.node) if isinstance(n_, (ast.If, ast.Assert)) and "stage.nx" in ast.unparse(n_.test) and
             (isinstance(n_, ast.Assert) or any(isinstance(x, ast.Raise) for x in n_.body)) and any(isinstance(l, (ast.For, ast.While)) for l in ctx.scope(f).block_chain(n_) and [o for (_t, _i, o) in ctx.scope(f).enclosing_loops(n_)])]
    ctx.check(bool(tails), "SplineMethod: a chain that ends in a state (x' = 0) is rejected", detail="a state with zero derivative is parametrised as a free input (the declared dynamics x' = 0 are not imposed)",
              expected="after building each chain: its last member must be a control (index >= stage.nx), else raise", found="no such test in the chain loop", fi=f)
    g = P.own_method("SplineMethod", "add_variables")
    has_guard(ctx, g, lambda t, k: "localize_t0" in t and "localize_T" in t and k == "assert", "SplineMethod: localised grids rejected", "grid formulation", "assert not localize_t0 and not localize_T")
    w = [c for c in walk_no_nested(f.node) if isinstance(c, ast.Assert) and 'weight' in ast.unparse(c.test)]
    ctx.check(len(w) == 1 and "==1.0" in ast.unparse(w[0].test).replace(" ", ""), "SplineMethod: only pure integrator chains (unit weights)", detail="chain weights", expected="assert weight == 1.0", found="; ".join(ast.unparse(x) for x in w), fi=f)


@rule("R17.7", min_instances=13, desc="SplineMethod places every bound of a (grouped) path constraint: inventory of its constraint sites (shared with C04)")
def r17_7(ctx):
    from .c04 import r04_9
    r04_9(ctx)


def _deboor_level(ctx, f, single):
    """The Cox-de Boor recursion step of one basis evaluator, read from its `for e in range(1, d+1)` loop.

    B_{i,e}(x) = (x - t_i)/(t_{i+e} - t_i) * B_{i,e-1}(x) + (t_{i+e+1} - x)/(t_{i+e+1} - t_{i+1}) * B_{i+1,e-1}(x)
    is implemented by scattering, for every i of the level, the two products of B_{i,e-1}/(t_{i+e}-t_i) into
    position i (with x - t_i) and position i-1 (with t_{i+e} - x) of the next, one-shorter, basis vector."""
    sc = ctx.scope(f)
    n = ctx.norm(f)
    knots, d = f.params[-2], f.params[-1]
    ind = f.params[0]
    loops = [l for l in f.node.body if isinstance(l, ast.For) and is_call_to(l.iter, "range") and len(l.iter.args) == 2 and isinstance(l.target, ast.Name)]
    ok = len(loops) == 1 and Norm(None).poly(loops[0].iter.args[0]) == Poly.const(1) and Norm(None).poly(loops[0].iter.args[1]) == expected("%s+1" % d)
    ctx.check(ok, "%s raises the degree one level at a time, e = 1..d" % f.name, detail="recursion depth", expected="for e in range(1, d+1)", found="; ".join(ast.unparse(l.iter) for l in loops), fi=f)
    if not ok:
        return
    l = loops[0]
    e = l.target.id
    local = {}
    for st in l.body:
        if isinstance(st, ast.Assign) and len(st.targets) == 1 and isinstance(st.targets[0], ast.Name):
            local.setdefault(st.targets[0].id, []).append(st)
    augs = [st for st in l.body if isinstance(st, ast.AugAssign) and isinstance(st.op, ast.Add) and isinstance(st.target, ast.Subscript) and isinstance(st.target.value, ast.Name)]
    ok = len(augs) == 2 and augs[0].target.value.id == augs[1].target.value.id
    ctx.check(ok, "%s scatters two products per level" % f.name, detail="recursion terms", expected="basis[a:a+L] += up; basis[a-1:a-1+L] += down", found="; ".join(ast.unparse(a.target) for a in augs), fi=f)
    if not ok:
        return
    B = augs[0].target.value.id

    def row_slice(t):
        s = t.slice
        if isinstance(s, ast.Tuple) and len(s.elts) == 2 and isinstance(s.elts[1], ast.Slice) and s.elts[1].lower is None and s.elts[1].upper is None:
            s = s.elts[0]
        return s if isinstance(s, ast.Slice) and s.lower is not None and s.upper is not None and s.step is None else None
    # index set of the level and knot differences
    ist = [st for nm, sts in local.items() for st in sts if is_call_to(st.value, "DM") and st.value.args and is_call_to(st.value.args[0], "list")]
    ok = len(ist) == 1
    lo = hi = None
    if ok:
        r = ist[0].value.args[0].args[0]
        ok = is_call_to(r, "range") and len(r.args) == 2
        if ok:
            lo, hi = n.poly(r.args[0]), n.poly(r.args[1])
            nk = expected("%s.numel()" % knots)
            ok = lo == expected("%s-%s+1" % (d, e)) and hi == nk - expected("%s+1" % d)
    ctx.check(ok, "%s: level e combines B_i for i = d-e+1 .. n-d-2" % f.name, detail="support of the level", expected="i = range(d-e+1, knots.numel()-d-1)", found=ast.unparse(ist[0].value) if ist else None, fi=f)
    if not ok:
        return
    iname = ist[0].targets[0].id
    I = n.poly(ast.Name(id=iname, ctx=ast.Load())) if False else n.poly(ist[0].value)
    K = lambda idx: Poly.atom("%s[%s]" % (knots, idx))
    ti, tie = K(I), K(I + Poly.atom(e))
    Lwant = hi - lo
    facts = {}
    for a in augs:
        sl = row_slice(a.target)
        v = a.value
        facts[a] = None
        if sl is None:
            continue
        start, stop = n.poly(sl.lower), n.poly(sl.upper)
        facts[a] = (start, stop - start, n.poly(v))
    ok = all(facts[a] is not None for a in augs)
    ctx.check(ok, "%s: scatter targets are plain row slices" % f.name, detail="scatter", expected="basis[a:b] += term", found="; ".join(ast.unparse(a.target) for a in augs), fi=f)
    if not ok:
        return
    # candidates for the evaluation point as it appears in the products: x itself or x repeated over the rows
    xs = []
    for nm, sts in list(local.items()) + [(d_.name, [d_.stmt]) for ds in sc.defs.values() for d_ in ds if d_.kind == "assign" and not sc.within(d_.stmt, l)]:
        for st in sts:
            if isinstance(st, ast.Assign) and len(st.targets) == 1 and isinstance(st.targets[0], ast.Name):
                xs.append((st.targets[0].id, n.poly(st.value)))
    binv = None
    up = down = None
    for a in augs:
        start, length, val = facts[a]
        for nm, X in xs:
            # term == (X - t_i) * B[i] / (t_{i+e} - t_i)   or   (t_{i+e} - X) * B[i] / (t_{i+e} - t_i)
            for rowsel in ("%s[%s]" % (B, I), "%s[%s,:]" % (B, I)):
                Bi = Poly.atom(rowsel)
                try:
                    den = n._inv(tie - ti, a)
                except Exception:
                    continue
                if val == (X - ti) * Bi * den:
                    up = (a, nm, start, length)
                if val == (tie - X) * Bi * den:
                    down = (a, nm, start, length)
    ok = up is not None and down is not None and up[0] is not down[0]
    ctx.check(ok, "%s: the two products are (x - t_i) and (t_{i+e} - x) times B_{i,e-1}/(t_{i+e} - t_i)" % f.name, detail="Cox-de Boor weights (knot span of degree e, same denominator in both terms)",
              expected="(x-knots[i])*basis[i]/(knots[i+e]-knots[i]) and (knots[i+e]-x)*basis[i]/(knots[i+e]-knots[i])", found="; ".join(str(facts[a][2])[:120] for a in augs), fi=f,
              sample={"fn": f.name, "terms": [str(facts[a][2])[:160] for a in augs]})
    if not ok:
        return
    ctx.check(up[2] == lo and down[2] == lo - 1, "%s: the (x - t_i) product feeds B_{i,e}, the (t_{i+e} - x) product feeds B_{i-1,e}" % f.name, detail="products scattered to the wrong basis function",
              expected="rows start at d-e+1 and d-e", found="%s / %s" % (up[2], down[2]), fi=f, sample={"fn": f.name, "starts": [str(up[2]), str(down[2])]})
    ctx.check(up[3] == Lwant and down[3] == Lwant, "%s: every B_i of the level contributes" % f.name, detail="number of rows scattered differs from the size of the level",
              expected="L = (n-d-1) - (d-e+1) rows", found="%s / %s" % (up[3], down[3]), fi=f)
    # the next basis vector is one shorter
    nb = [st for st in local.get(B, []) if isinstance(st.value, ast.Call) and ast.unparse(st.value.func) in ("MX", "DM", "SX") and st.value.args]
    ok = len(nb) == 1 and n.poly(nb[0].value.args[0]) == expected("%s.numel()-%s-1" % (knots, e)) and sc.order[nb[0]] < min(sc.order[a] for a in augs)
    ctx.check(ok, "%s: level e has n-e-1 basis functions, zeroed before the scatter" % f.name, detail="size of the level", expected="basis = MX(knots.numel()-e-1, ...)", found="; ".join(ast.unparse(s) for s in nb), fi=f)
    # evaluation point
    xname = up[1]
    xd = [d_ for d_ in sc.defs.get(xname, []) if d_.kind == "assign"]
    xv = xd[0].value if len(xd) == 1 else None
    if xv is not None and is_call_to(xv, "repmat") and isinstance(xv.args[0], ast.Name):
        okr = n.poly(xv.args[1]) == Lwant or Norm(None).key(xv.args[1]) in [ast.unparse(t.targets[0]) for nm, sts in local.items() for t in sts if n.poly(t.value) == Lwant]
        ctx.check(okr and ast.unparse(xv.args[2]) == "1", "%s: the evaluation points are repeated once per contributing row" % f.name, detail="broadcast", expected="repmat(x, L, 1)", found=ast.unparse(xv), fi=f)
        xd = [d_ for d_ in sc.defs.get(xv.args[0].id, []) if d_.kind == "assign"]
        xv = xd[0].value if len(xd) == 1 else None
    if single:
        want = Norm(None).poly(ast.parse("%s[%s+%s]" % (knots, ind, d), mode="eval").body)
        ok = xv is not None and Norm(None).poly(xv) == want
        exp = "x = knots[ind+d]"
    else:
        tau = f.params[1]
        ok = xv is not None and Norm(None).poly(xv) == expected("%s[%s+%s]*(1-%s)+%s*%s[%s+%s+1]" % (knots, ind, d, tau, tau, knots, ind, d))
        exp = "x = knots[ind+d]*(1-tau) + tau*knots[ind+d+1]"
    ctx.check(ok, "%s evaluates at %s" % (f.name, "the knot itself" if single else "tau between knot ind and ind+1 (tau in [0,1])"), detail="evaluation point", expected=exp, found=ast.unparse(xv) if xv is not None else None, fi=f)
    # degree-0 start: indicator of the knot span containing x (clamped at the last span)
    starts = [st for st in walk_no_nested(f.node) if isinstance(st, ast.Assign) and isinstance(st.targets[0], ast.Subscript) and ast.unparse(st.targets[0].value) == B
              and not sc.within(st, l) and not sc.enclosing_loops(st)]
    ok = len(starts) == 1 and Norm(None).key(starts[0].targets[0].slice) == Norm(None).key(ast.parse("min(%s+%s, %s.numel()-%s-2)" % (ind, d, knots, d), mode="eval").body)
    ctx.check(ok, "%s starts from the indicator of span ind (clamped to the last span)" % f.name, detail="degree-0 basis", expected="basis[min(ind+d, n-d-2)] = 1", found="; ".join(ast.unparse(s.targets[0]) for s in starts), fi=f)


@rule("R17.8", min_instances=16, desc="Cox-de Boor recursion of the basis evaluators (at a knot and between knots): weights, knot spans, destination rows, level sizes, evaluation point, degree-0 start")
def r17_8(ctx):
    P = ctx.prog
    _deboor_level(ctx, P.function("splines/micro_spline", "eval_basis_knotindex"), True)
    _deboor_level(ctx, P.function("splines/micro_spline", "eval_basis_knotindex_subgrid"), False)
    # eval_on_knots: clamped knot vector, every knot (and the requested sub-samples of every span) in order
    f = P.function("splines/micro_spline", "eval_on_knots")
    sc = ctx.scope(f)
    xi, d = f.params[0], f.params[1]
    kd = [d_ for d_ in sc.defs.get("knots", []) if d_.kind == "assign"]
    ok = len(kd) == 1 and Norm(None).key(kd[0].value) == Norm(None).key(ast.parse("horzcat(repmat(%s[0],1,%s),%s,repmat(%s[-1],1,%s))" % (xi, d, xi, xi, d), mode="eval").body)
    ctx.check(ok, "eval_on_knots uses the clamped knot vector (end knots repeated d extra times)", detail="knot vector", expected="[xi0]*d + xi + [xiN]*d", found=ast.unparse(kd[0].value) if kd else None, fi=f)
    ev = [c for c in walk_no_nested(f.node) if isinstance(c, ast.Call) and isinstance(c.func, ast.Name) and c.func.id in ("eval_basis_knotindex", "eval_basis_knotindex_subgrid")]
    ok = len(ev) == 2
    if ok:
        loops = [sc.enclosing_loops(c) for c in ev]
        ok = all(len(lp) == 1 and isinstance(lp[0][0], ast.Name) for lp in loops) and loops[0][0][2] is loops[1][0][2]
        if ok:
            i = loops[0][0][0].id
            it = loops[0][0][1]
            # the clamped vector has len(xi)+2d entries (checked above), so knots.numel()-2*d is the number of knots
            ok = is_call_to(it, "range") and len(it.args) == 1 and Norm(None).poly(it.args[0]) == expected("knots.numel()-2*%s" % d)
            for c in ev:
                ok = ok and ast.unparse(c.args[0]) == i and ast.unparse(c.args[-2]) == "knots" and ast.unparse(c.args[-1]) == d
    ctx.check(ok, "eval_on_knots evaluates the basis at every knot index in order, with the full knot vector and degree", detail="enumeration of evaluation points",
              expected="for i in range(len(xi)): eval_basis_knotindex(i, knots, d) [+ sub-samples of span i]", found="; ".join(ast.unparse(c) for c in ev), fi=f)


@rule("R17.9", min_instances=5, desc="SplineMethod: affine grid='inf' constraints keep their offset on both sides; time-dependent guesses are evaluated at the Greville abscissae in physical time")
def r17_9(ctx):
    P = ctx.prog
    f = P.own_method("SplineMethod", "add_constraints_inf")
    sc = ctx.scope(f)
    n = ctx.norm(f)
    lc = [c for c in walk_no_nested(f.node) if is_call_to(c, "linear_coeffs") and len(c.args) >= 2]
    st = sc.stmt_of(lc[0]) if len(lc) == 1 else None
    ok = st is not None and isinstance(st, ast.Assign) and isinstance(st.targets[0], ast.Tuple) and len(st.targets[0].elts) == 3
    ctx.check(ok, "add_constraints_inf splits the constraint into A*v + b", detail="linear decomposition", expected="A, Asignal, b = linear_coeffs(canon, v, signals)", found="; ".join(ast.unparse(c) for c in lc), fi=f)
    if not ok:
        return
    bname = st.targets[0].elts[2].id
    subs = [c for c in walk_no_nested(f.node) if is_call_to(c, "subject_to") and c.args]
    ctx.check(len(subs) == 2, "add_constraints_inf places the coefficient constraints (state/control chains; signals)", detail="placement sites", expected="2 sites", found=str(len(subs)), fi=f)
    for c in subs:
        e = c.args[0]
        if is_call_to(e, "eval", "self") and len(e.args) == 2:
            e = e.args[1]
        ok = isinstance(e, ast.Compare) and len(e.ops) == 1 and isinstance(e.ops[0], ast.LtE) and isinstance(e.comparators[0], ast.Compare) and isinstance(e.comparators[0].ops[0], ast.LtE)
        found = ast.unparse(e)[:120]
        if ok:
            L, U = e.left, e.comparators[0].comparators[0]
            nn = Norm(None)
            pl, pu = nn.poly(L), nn.poly(U)

            # offsets: L - lb[..] and U - ub[..] must be the same polynomial, namely -b[..] with the same selector
            lbs = [a for a in pl.atoms() if a == "lb" or a.startswith("lb[")]
            ubs = [a for a in pu.atoms() if a == "ub" or a.startswith("ub[")]
            ok = len(lbs) == 1 and len(ubs) == 1 and lbs[0][2:] == ubs[0][2:]
            if ok:
                s_ = lbs[0][2:]
                offL, offU = pl - Poly.atom(lbs[0]), pu - Poly.atom(ubs[0])
                ok = offL == offU == -Poly.atom(bname + s_)
        ctx.check(ok, "affine inf constraint (line-role %s): the offset b is moved to both bounds" % ("chains" if sc.enclosing_loops(c) else "signals"), detail="bound of an affine constraint not corrected for its constant term (v+0.5<=2.5 lets v reach 2.5)",
                  expected="lb[S]-b[S] <= A*c <= ub[S]-b[S]", found=found, fi=f, node=c, sample={"constraint": found})
    g = P.own_method("SplineMethod", "set_initial")
    scg = ctx.scope(g)
    ng = Norm(scg, alias_only=True)
    fc = [c for c in walk_no_nested(g.node) if isinstance(c, ast.Call) and isinstance(c.func, ast.Name) and c.func.id == "f" and len(c.args) == 1]
    ok = len(fc) == 1
    found = "; ".join(ast.unparse(c) for c in fc)
    if ok:
        arg = Norm(None).poly(fc[0].args[0])
        dv = None
        for a in arg.atoms():
            if a.startswith("self.G["):
                dv = a
        ok = dv is not None and arg == Poly.atom("t0") + Poly.atom(dv) * Poly.atom("T")
        reads = {nm: [d for d in scg.defs.get(nm, []) if d.kind == "assign"] for nm in ("t0", "T")}
        ok = ok and all(len(v) == 1 for v in reads.values()) and Norm(None).key(reads["t0"][0].value) == Norm(None).key(ast.parse("opti.debug.value(self.t0, opti_initial)", mode="eval").body) \
            and Norm(None).key(reads["T"][0].value) == Norm(None).key(ast.parse("opti.debug.value(self.T, opti_initial)", mode="eval").body)
    ctx.check(ok, "SplineMethod.set_initial evaluates a time-dependent guess at t0 + Greville*T of the guessed horizon", detail="guess evaluated at normalised / unshifted times", expected="f(t0 + self.G[d]*T) with t0, T the current starting values",
              found=found, fi=g, sample={"times": found})


@rule("R17.10", min_instances=3, desc="SplineMethod refined sampling: the returned times are the physical image t0 + tau*T of the very sample locations tau at which the B-spline basis was evaluated (same knots, same sub-sampling)")
def r17_10(ctx):
    P = ctx.prog
    f = P.own_method("SplineMethod", "sample_xu")
    sc = ctx.scope(f)
    refine = f.params[2]
    evs = [c for c in walk_no_nested(f.node) if is_call_to(c, "eval_on_knots")]
    def sub_kw(c):
        kw = {k.arg: ast.unparse(k.value).replace(" ", "") for k in c.keywords}
        return ast.unparse(c.args[0]) if c.args else None, kw.get("subsamples")
    basis_evs = [c for c in evs if sc.enclosing_loops(c)]
    ok = len(basis_evs) >= 1 and all(sub_kw(c) == ("self.xi", "%s-1" % refine) for c in basis_evs)
    ctx.check(ok, "sample_xu evaluates the basis on the stage's knots with refine-1 sub-samples per interval", detail="basis sample locations", expected="eval_on_knots(self.xi, d, subsamples=refine-1)",
              found="; ".join(ast.unparse(c) for c in basis_evs), fi=f)
    ts = [st for st in walk_no_nested(f.node) if isinstance(st, ast.Assign) and ast.unparse(st.targets[0]) == "self.time[%s]" % refine]
    ok = len(ts) == 1
    found = "; ".join(ast.unparse(s) for s in ts)
    if ok:
        p = Norm(None).poly(ts[0].value)
        locs = [a for a in p.atoms() if a not in ("self.t0", "self.T")]
        ok = len(locs) == 1 and p == Poly.atom("self.t0") + Poly.atom(locs[0]) * Poly.atom("self.T")
        if ok:
            # the sample locations come from eval_on_knots on the same knots with the same sub-sampling
            src = None
            nm = locs[0]
            for st in walk_no_nested(f.node):
                if isinstance(st, ast.Assign) and is_call_to(st.value, "eval_on_knots") and isinstance(st.targets[0], (ast.List, ast.Tuple)) and st.targets[0].elts \
                        and ast.unparse(st.targets[0].elts[0]) == nm and sc.order[st] < sc.order[ts[0]]:
                    src = st.value
            if src is None and nm.startswith("self.tau["):
                src = basis_evs[0] if basis_evs else None
            ok = src is not None and sub_kw(src) == ("self.xi", "%s-1" % refine)
    ctx.check(ok, "sample_xu: refined times = t0 + (basis sample locations) * T", detail="refined time vector taken from another grid than the one the values are sampled on (non-uniform grids)",
              expected="[tau, _] = eval_on_knots(self.xi, ., subsamples=refine-1); self.time[refine] = self.t0 + tau*self.T", found=found, fi=f, sample={"time": found})
    g = P.function("splines/micro_spline", "eval_on_knots")
    scg = ctx.scope(g)
    # the locations returned with the basis: every knot followed by the linear sub-samples of its interval
    apps = [c for c in walk_no_nested(g.node) if is_call_to(c, "append", "k")]
    texts = [Norm(scg).key(c.args[0]) for c in apps]
    xi = g.params[0]
    want_inner = Norm(None).key(ast.parse("%s[i]*(1-tau)+tau*%s[i+1]" % (xi, xi), mode="eval").body)
    ok = len(apps) == 2 and texts[0] == Norm(None).key(ast.parse("%s[i]" % xi, mode="eval").body) and texts[1] == want_inner
    ctx.check(ok, "eval_on_knots returns, with the basis, the locations knot_i and knot_i*(1-tau)+tau*knot_{i+1}", detail="sample locations reported with the basis", expected="k.append(xi[i]); k.append(k_current*(1-tau)+tau*k_next)",
              found=str(texts), fi=g)


@rule("R17.11", min_instances=2, desc="gist sampling under SplineMethod: the coefficients of a chain member are reported at the Greville points of ITS OWN degree (head degree minus its level in the chain)")
def r17_11(ctx):
    P = ctx.prog
    f = P.own_method("SplineMethod", "grid_gist")
    sc = ctx.scope(f)
    n = Norm(sc, alias_only=True)
    rets = [r for r in walk_no_nested(f.node) if isinstance(r, ast.Return) and isinstance(r.value, ast.Tuple) and len(r.value.elts) == 2]
    ctx.check(len(rets) == 2, "grid_gist has a chain branch and a signal branch", detail="structure", expected="two returns (time, coefficients)", found=str(len(rets)), fi=f)
    for r in rets:
        t = r.value.elts[0]
        gname = [x for x in ast.walk(t) if isinstance(x, (ast.Name, ast.Subscript)) and not ast.unparse(x).startswith("self.t0") and not ast.unparse(x).startswith("self.T")]
        # time = self.t0 + G*self.T
        p = Norm(None).poly(t)
        others = [a for a in p.atoms() if a not in ("self.t0", "self.T")]
        ok = len(others) == 1 and p == Poly.atom("self.t0") + Poly.atom(others[0]) * Poly.atom("self.T")
        src = None
        if ok:
            g = others[0]
            if g.startswith("self.G["):
                # indexed by the degree of the chain HEAD: wrong for lower members
                src = "head"
            else:
                ds = [d_ for d_ in sc.defs.get(g, []) if d_.kind == "assign" and sc.order[d_.stmt] < sc.order[r]]
                ds = [d_ for d_ in ds if is_call_to(d_.value, "get_greville_points") and len(d_.value.args) == 2]
                if ds:
                    deg = n.key(ds[-1].value.args[1])
                    src = deg
        is_signal_branch = src is not None and src.endswith(".degree")
        own = src is not None and (is_signal_branch or ("['d']" in src and "['i']" in src and "-" in src.replace("+ -", "-")))
        ctx.check(ok and own, "grid_gist (line-role %s) reports coefficients at the Greville points of the member's own degree" % ("signals" if is_signal_branch else "chains"),
                  detail="coefficients of a lower chain member paired with the Greville points of the head's degree (one time too many; wrong abscissae)",
                  expected="G = get_greville_points(self.xi, origin['d'] - origin['i'])", found="Greville degree: %s" % src, fi=f, node=r, sample={"degree": src})


@rule("R17.12", min_instances=5, desc="SplineMethod imposes a path constraint at the grid points it was declared for: the lump's include_first / include_last reach grid_control un-swapped and the columns are cut once (shared with C04 / C07)")
def r17_12(ctx):
    from .c04 import r04_18
    r04_18(ctx)


@rule("R17.13", min_instances=2, desc="SplineMethod evaluates next/prev/offset operands with shifted copies of the states and controls only: an operand that depends on time or on a B-spline signal must be rejected (or get shifted copies of those too)")
def r17_13(ctx):
    """D88: `next(s) - s <= 1` on a B-spline variable became `0 <= 1`; `p <= 0.2*next(t)` used t_k."""
    P = ctx.prog
    f = P.own_method("SplineMethod", "grid_control")
    sc = ctx.scope(f)
    branch = [n_ for n_ in walk_no_nested(f.node) if isinstance(n_, ast.If) and "_offsets" in ast.unparse(n_.test)]
    if not branch:
        raise AnalysisError("SplineMethod.grid_control: the branch handling next/prev/offset symbols was not found")
    b = branch[0]
    subs = [c for c in ast.walk(b) if is_call_to(c, "substitute")]
    if not subs:
        raise AnalysisError("SplineMethod.grid_control: the operand substitution of the offset branch was not found")
    text = ast.unparse(b)
    for what, needle in (("time", "stage.t"), ("B-spline signals", "self.signals")):
        guarded = any(isinstance(x, (ast.Raise, ast.Assert)) and (needle in " ".join(ast.unparse(t) for t, _ in sc.path_guards(x)) or (isinstance(x, ast.Assert) and needle in ast.unparse(x.test)))
                      for x in ast.walk(b))
        shifted = any(needle in ast.unparse(a) for c in subs for a in c.args[1:2])
        ctx.check(guarded or shifted, "SplineMethod.grid_control: an offset operand that depends on %s is rejected or shifted" % what,
                  detail="the operand of next/prev/offset is evaluated with %s of the current node: next(s) - s <= c becomes 0 <= c, p <= next(t) uses t_k" % what,
                  expected="raise when depends_on(operand, %s), or shifted copies substituted like those of the states" % needle, found="neither in the offset branch", fi=f, node=b)
