"""C11 -- a free-time problem is the fixed-time problem with T (t0) as a decision variable.

Decided: the promotion of FreeTime to a variable (one variable, the guess, exactly one constraint
T>=0, nothing for t0) and the pass-through of a fixed horizon (R11.1); parametricity -- outside the
two promotion handlers no branch tests the *nature* of a horizon-derived value, so the same code
path builds the free-time and the fixed-time NLP (R11.2); the public T/t0/tf symbols resolve to the
method's T/t0 (R11.3); guesses for T/t0 are redirected to the method's variables in every sibling
(R11.4); changing the horizon invalidates the transcription and every method places the grid's
coupling constraints for the localised formulations (R11.5).
Not decided: numeric agreement at matched points.
"""
import ast

from ..core import rule
from ..model import AnalysisError
from ..norm import Norm, expected, value_cases
from ..paths import walk_no_nested, must_on_all_paths, const_guard
from ..effects import is_call_to
from .c13 import _is_invalidate

LEVEL = "other"


def phase1_branch(f):
    for st in f.node.body:
        if isinstance(st, ast.If) and ast.unparse(st.test).replace(" ", "") == "phase==1":
            return st
    return None


@rule("R11.1", min_instances=10, desc="promotion shape: FreeTime(T) -> set_T(variable()), guess T_init, exactly one constraint T>=0; FreeTime(t0) -> variable and guess, no constraint; otherwise the declared value is returned unchanged")
def r11_1(ctx):
    """Decided on the three paths of each handler (phase 1 with a FreeTime, phase 1 without, any later phase), whatever way the
    branches are written: the statements executed on each path are collected by a deterministic walk under the path's truth values."""
    from ..ceval import run_path, Unknown
    P = ctx.prog
    for which, attr, setter, nconstr in (("T", "_T", "set_T", 1), ("t0", "_t0", "set_t0", 0)):
        f = P.own_method("DirectMethod", "fill_placeholders_" + which)
        sc = ctx.scope(f)
        phase = f.params[1]
        free_test = "isinstance(stage.%s, FreeTime)" % attr
        from ..paths import canon_guard
        tests = {canon_guard(t)[0] for st in ast.walk(f.node) if isinstance(st, (ast.If, ast.IfExp)) for t in [st.test]}
        ctx.check(any(phase in t for t in tests), "fill_placeholders_%s has a phase-1 branch" % which, detail="phase structure", expected="a test on phase", found=sorted(tests), fi=f)
        ctx.check(free_test in tests, "fill_placeholders_%s promotes exactly when the declaration is a FreeTime" % which, detail="promotion condition", expected=free_test, found=sorted(tests), fi=f)
        paths = {}
        for label, env in (("free", {phase: 1, free_test: True, "not " + free_test: False}), ("fixed", {phase: 1, free_test: False, "not " + free_test: True}),
                           ("later", {phase: 2, free_test: True, "not " + free_test: False}), ("later-fixed", {phase: 2, free_test: False, "not " + free_test: True})):
            try:
                paths[label] = run_path(f.node.body, env, None)
            except Unknown as e:
                paths[label] = None
                ctx.fail("free %s: variable, constraint and guess are unconditional" % which if label == "free" else "fill_placeholders_%s path %s is decided by phase and declaration alone" % (which, label),
                         detail="the promotion (in particular T>=0) depends on something else than the declaration being a FreeTime", expected="no further condition", found="undecidable test: %s" % e, fi=f)
        if paths.get("free") is None:
            continue
        done, ex = paths["free"]
        calls = [c for st in done for c in ast.walk(st) if isinstance(c, ast.Call)]
        # statements that sit under the user's-own-guess lookup (try/except KeyError) are on this path too: they only read
        setc = [c for c in calls if is_call_to(c, setter, "stage")]
        ok = len(setc) == 1 and len(setc[0].args) == 1 and ast.unparse(setc[0].args[0]) == "stage.variable()"
        ctx.check(ok, "free %s becomes one scalar decision variable" % which, detail="promotion", expected="stage.%s(stage.variable())" % setter, found="; ".join(ast.unparse(c) for c in setc), fi=f)
        subj = [c for c in calls if is_call_to(c, "subject_to", "stage")]
        ok = len(subj) == nconstr and all(Norm(None).key(c.args[0]) == Norm(None).key(ast.parse("stage.%s>=0" % attr, mode="eval").body) for c in subj)
        ctx.check(ok, "free %s adds %s" % (which, "exactly the constraint T>=0" if nconstr else "no constraint"), detail="extra or missing constraint on the horizon variable",
                  expected="%d constraint(s)%s" % (nconstr, " stage._T>=0" if nconstr else ""), found="; ".join(ast.unparse(c) for c in subj), fi=f, sample={"constraints": [ast.unparse(c) for c in subj]})
        ctx.ok("free %s: variable, constraint and guess are unconditional" % which, fi=f)
        ini = [c for c in calls if is_call_to(c, "set_initial", "stage")]
        initd = [st for st in done if isinstance(st, ast.Assign) and ast.unparse(st.value) == "stage.%s.T_init" % attr]
        order = {id(st): i_ for i_, st in enumerate(done)}
        def pos(c):
            for st in done:
                if any(x is c for x in ast.walk(st)):
                    return order[id(st)]
            return -1
        ok = len(ini) == 1 and len(initd) == 1 and ast.unparse(ini[0].args[0]) == "stage.%s" % attr and ast.unparse(ini[0].args[1]) == ast.unparse(initd[0].targets[0]) \
            and bool(setc) and order[id(initd[0])] < pos(setc[0]) < pos(ini[0])
        if ok:
            pk = [k for k in ini[0].keywords if k.arg == "priority"]
            ok = not pk or (isinstance(pk[0].value, ast.Constant) and pk[0].value.value is True)
        ctx.check(ok, "free %s starts from the declared guess" % which, detail="guess of the horizon variable (applied with priority, so that a user's own guess for the horizon overrides it)", expected="init = stage.%s.T_init (read before promotion); stage.set_initial(stage.%s, init)" % (attr, attr),
                  found="; ".join(ast.unparse(c) for c in ini), fi=f)
        ret_free = ast.unparse(ex.value) if isinstance(ex, ast.Return) and ex.value is not None else None
        okr = ret_free == "stage.%s" % attr
        if paths.get("fixed") is not None:
            d2, e2 = paths["fixed"]
            ret_fixed = ast.unparse(e2.value) if isinstance(e2, ast.Return) and e2.value is not None else None
            okr = okr and ret_fixed == "stage.%s" % attr and not [c for st in d2 for c in ast.walk(st) if isinstance(c, ast.Call)]
        else:
            ret_fixed = None
        ctx.check(okr, "the %s placeholder resolves to the declaration (fixed: unchanged, no side effects)" % which, detail="fixed horizon altered", expected="return stage.%s on both branches" % attr,
                  found="%s / %s" % (ret_free, ret_fixed), fi=f)
        rets2 = []
        for label in ("later", "later-fixed"):
            if paths.get(label) is not None:
                d3, e3 = paths[label]
                rets2.append(Norm(None).key(e3.value) if isinstance(e3, ast.Return) and e3.value is not None and not [c for st in d3 for c in ast.walk(st) if isinstance(c, ast.Call)] else None)
        ctx.check(bool(rets2) and all(r == "self.eval(stage,%s)" % f.params[3] for r in rets2), "phase 2 evaluates the %s declaration through the common substitution" % which, detail="phase 2", expected="return self.eval(stage, expr)", found=rets2, fi=f)


@rule("R11.10", min_instances=2, desc="a stage created from a template with its own horizon declaration (ocp.stage(template, T=.., t0=..)) does not inherit the template's guess for that horizon")
def r11_10(ctx):
    """D78: clone copied the template's guess table wholesale; with T=FreeTime(2) given for the clone the template's
    set_initial(template.T, 3) overruled the new declaration (and with a numeric T the stale guess made Opti raise)."""
    P = ctx.prog
    f = P.own_method("Stage", "clone")
    sc = ctx.scope(f)
    for key, ph in (("T", "ret.T"), ("t0", "ret.t0")):
        drops = [x for x in walk_no_nested(f.node) if (isinstance(x, ast.Delete) and any(ast.unparse(t) == "ret._initial[%s]" % ph for t in x.targets)) or
                 (is_call_to(x, "pop", "ret._initial") and x.args and ast.unparse(x.args[0]) == ph)]
        ok = False
        for d in drops:
            gs = [(ast.unparse(t).replace('"', "'"), pol) for t, pol in sc.guards(d)]
            if gs in ([("'%s' in kwargs" % key, True)], [("'%s' not in kwargs" % key, False)]):
                ok = True
        # the drop must come after the guess table was copied
        cp = [d for d in sc.defs.get("ret", []) if False]
        tab = [st for st in walk_no_nested(f.node) if isinstance(st, ast.Assign) and ast.unparse(st.targets[0]) == "ret._initial"]
        ok = ok and len(tab) == 1 and all(sc.order[sc.stmt_of(d) if not isinstance(d, ast.stmt) else d] > sc.order[tab[0]] for d in drops)
        ctx.check(ok, "Stage.clone withdraws the template's guess for %s when the clone declares its own" % key, detail="the template's guess overrules the FreeTime guess of the clone's own declaration (or is applied to a horizon that is now a number)",
                  expected="if '%s' in kwargs: ret._initial.pop(%s, None) (after the guess table was copied)" % (key, ph), found="; ".join(ast.unparse(d)[:60] for d in drops) or "no withdrawal", fi=f)


@rule("R11.9", min_instances=9, desc="FreeTime(guess) keeps the guess as given (t0 guesses may be negative); with free T/t0 the horizon variable sits in V: the dynamics still read every symbol from its own slot (pack order, shared with C01)")
def r11_9(ctx):
    from .c01 import check_pack_order
    P = ctx.prog
    f = P.own_method("FreeTime", "__init__")
    writes = [st for st in walk_no_nested(f.node) if isinstance(st, (ast.Assign, ast.AugAssign))]
    ok = len(writes) == 1 and isinstance(writes[0], ast.Assign) and ast.unparse(writes[0].targets[0]) == "self.T_init" and ast.unparse(writes[0].value) == f.params[1] and \
        not [c for c in walk_no_nested(f.node) if isinstance(c, (ast.If, ast.Call))]
    ctx.check(ok, "FreeTime stores the guess unchanged", detail="the starting value of the free horizon is not the guess (clamped / transformed)", expected="self.T_init = T_init", found="; ".join(ast.unparse(w) for w in writes), fi=f)
    check_pack_order(ctx)


HORIZON_NAMES = ("self.T", "self.t0", "stage._T", "stage._t0", "stage.T", "stage.t0", "self._T", "self._t0", "control_grid", "T_local", "t0_local", "self.tf", "stage.tf")
NATURE_CALLS = ("is_numeric", "is_constant", "is_symbolic", "is_parametric", "is_zero", "is_one", "is_valid_input", "is_regular")

# nature tests on horizon-derived values that are part of the design (anything else is a violation)
NATURE_OK = {
    ("DirectMethod.fill_placeholders_T", "isinstance(stage._T, FreeTime)"): "the promotion handler",
    ("DirectMethod.fill_placeholders_t0", "isinstance(stage._t0, FreeTime)"): "the promotion handler",
}


def _is_guess_withdrawal(st):
    """`del self._initial[..]`, `self._initial.pop(..)`, or a try around such statements whose handlers only pass."""
    if isinstance(st, ast.Delete):
        return all(isinstance(t, ast.Subscript) and ast.unparse(t.value) == "self._initial" for t in st.targets)
    if isinstance(st, ast.Expr) and is_call_to(st.value, "pop", "self._initial"):
        return True
    if isinstance(st, ast.Try):
        return all(_is_guess_withdrawal(b) for b in st.body) and not st.orelse and not st.finalbody and \
            all(all(isinstance(b, ast.Pass) for b in h.body) for h in st.handlers)
    return isinstance(st, ast.Pass)


def _only_withdraws_guesses(f, call):
    """The nature test is the whole condition of an `if` without else whose body only withdraws recorded guesses
    (no grid, constraint or placeholder is built differently): free and fixed horizons still share every construction path."""
    for st in walk_no_nested(f.node):
        if isinstance(st, ast.If) and st.test is call:
            return not st.orelse and all(_is_guess_withdrawal(b) for b in st.body)
    return False


@rule("R11.2", min_instances=3, desc="parametricity: outside the two promotion handlers no branch tests the nature (numeric / symbolic / FreeTime) of a horizon-derived value")
def r11_2(ctx):
    P = ctx.prog
    found = {}
    funcs = []
    for cname in P.subclasses("DirectMethod") + P.subclasses("Grid") + ["Stage", "Ocp", "OptiWrapper"]:
        funcs += list(P.cls(cname).methods.values())
    for f in funcs:
        for c in walk_no_nested(f.node):
            if not isinstance(c, ast.Call):
                continue
            t = ast.unparse(c)
            is_nature = False
            if isinstance(c.func, ast.Name) and c.func.id == "isinstance" and len(c.args) == 2 and "FreeTime" in ast.unparse(c.args[1]):
                is_nature = True
                subject = ast.unparse(c.args[0])
            elif (isinstance(c.func, ast.Attribute) and c.func.attr in NATURE_CALLS) or (isinstance(c.func, ast.Name) and c.func.id in NATURE_CALLS):
                subject = ast.unparse(c.func.value) if isinstance(c.func, ast.Attribute) and not c.args else ", ".join(ast.unparse(a) for a in c.args) or ast.unparse(c.func.value)
                is_nature = any(h in subject for h in HORIZON_NAMES)
            if is_nature and not _only_withdraws_guesses(f, c):
                found[(f.qualname, t)] = (f, c)
    for key, (f, c) in sorted(found.items()):
        ctx.check(key in NATURE_OK, "%s tests %s" % key, detail="free and fixed horizons take different code paths", expected="no nature test on a horizon value outside the promotion handlers", found=key[1], fi=f, node=c,
                  sample={"site": key[0], "test": key[1], "why": NATURE_OK.get(key)})
    for key in NATURE_OK:
        ctx.check(key in found, "promotion test present: %s" % key[1], detail="promotion handler no longer recognises FreeTime", expected=key[1], found="absent")
    ctx.ok("%d functions scanned for nature tests on horizon values" % len(funcs))


@rule("R11.3", min_instances=6, desc="ocp.T / ocp.t0 / ocp.tf are placeholders resolved through the method's T and t0 everywhere")
def r11_3(ctx):
    P = ctx.prog
    f = P.own_method("Stage", "__init__")
    asg = {ast.unparse(st.targets[0]): ast.unparse(st.value) for st in walk_no_nested(f.node) if isinstance(st, ast.Assign) and len(st.targets) == 1}
    for a, v in (("self._public_T", "self._create_placeholder_expr(0, 'T')"), ("self._public_t0", "self._create_placeholder_expr(0, 't0')"), ("self._tf", "self.T + self.t0")):
        ctx.check(asg.get(a) == v, "Stage.__init__ %s" % a, detail="public horizon symbol", expected=v, found=asg.get(a), fi=f)
    for prop, src in (("T", "self._public_T"), ("t0", "self._public_t0"), ("tf", "self._tf")):
        g = P.own_method("Stage", prop)
        rets = [ast.unparse(r.value) for r in walk_no_nested(g.node) if isinstance(r, ast.Return)]
        ctx.check(rets == [src], "Stage.%s returns its placeholder" % prop, detail="accessor", expected=src, found=rets, fi=g)
    # every substitution call passes the method's own T/t0 for the public symbols
    n_calls = 0
    for name in ("eval_at_control", "_eval_at_control", "eval_at_integrator", "eval_at_integrator_root"):
        g = P.own_method("SamplingMethod", name)
        for c in walk_no_nested(g.node):
            if isinstance(c, ast.Call) and isinstance(c.func, ast.Attribute) and c.func.attr == "_expr_apply":
                kw = {k.arg: ast.unparse(k.value) for k in c.keywords}
                n_calls += 1
                ctx.check(kw.get("T") == "self.T" and kw.get("t0") == "self.t0", "%s substitutes the public T/t0 by the method's" % name, detail="T/t0 inside an expression not tied to the decision variable",
                          expected="T=self.T, t0=self.t0", found="T=%s, t0=%s" % (kw.get("T"), kw.get("t0")), fi=g, node=c)
    s = P.own_method("Stage", "_get_subst_set")
    txt = ast.unparse(s.node)
    ok = "subst_from.append(self.T)" in txt and "subst_to.append(kwargs['T'])" in txt and "subst_from.append(self.t0)" in txt and "subst_to.append(kwargs['t0'])" in txt
    ctx.check(ok, "Stage._get_subst_set pairs the public T/t0 placeholders with the supplied values", detail="substitution pairing", expected="T <-> kwargs['T'], t0 <-> kwargs['t0']", found="", fi=s)


@rule("R11.4", min_instances=4, desc="guesses addressed to ocp.T / ocp.t0 are redirected to the method's variables in every set_initial sibling")
def r11_4(ctx):
    check_T_aliasing(ctx)


def check_T_aliasing(ctx):
    P = ctx.prog
    for cname in ("SamplingMethod", "DirectCollocation"):
        f = P.own_method(cname, "set_initial")
        sc = ctx.scope(f)
        for pub, mine in (("stage.T", "self.T"), ("stage.t0", "self.t0")):
            hits = []
            for st in walk_no_nested(f.node):
                if isinstance(st, ast.Assign) and ast.unparse(st.value) == mine and isinstance(st.targets[0], ast.Name):
                    v = st.targets[0].id
                    gs = [ast.unparse(t).replace("ca.", "") for t, p in sc.guards(st) if p]
                    if "is_equal(%s, %s)" % (v, pub) in gs:
                        hits.append(st)
            ctx.check(len(hits) == 1, "%s.set_initial redirects %s to %s" % (cname, pub, mine), detail="guess for the horizon never reaches the decision variable",
                      expected="if is_equal(var, %s): var = %s" % (pub, mine), found=str(len(hits)), fi=f)


@rule("R11.5", min_instances=6, desc="changing the horizon invalidates the transcription; every method places the time grid's coupling constraints (localised free-time formulations)")
def r11_5(ctx):
    P = ctx.prog
    for name in ("set_T", "set_t0"):
        f = P.own_method("Stage", name)
        ok, _ = must_on_all_paths(f.node.body, _is_invalidate)
        ctx.check(ok, "Stage.%s invalidates the cached transcription" % name, detail="a horizon changed after a solve is ignored", expected="self._set_transcribed(False)", found="missing", fi=f)
        ws = [st for st in walk_no_nested(f.node) if isinstance(st, ast.Assign)]
        attr = "_T" if name == "set_T" else "_t0"
        ok = len(ws) == 1 and ast.unparse(ws[0].targets[0]) == "self." + attr and ast.unparse(ws[0].value) == f.params[1]
        ctx.check(ok, "Stage.%s stores the declaration" % name, detail="horizon declaration", expected="self.%s = %s" % (attr, f.params[1]), found="; ".join(ast.unparse(w) for w in ws), fi=f)
    from .c06 import check_coupling
    check_coupling(ctx, only_localisable=True)


@rule("R11.6", min_instances=5, desc="starting values of the localised grid variables follow from the guessed t0 and T through the method's own grid (shared with C10)")
def r11_6(ctx):
    from .c10 import r10_2
    r10_2(ctx)


@rule("R11.7", min_instances=2, desc="the default guess of a promoted horizon yields to a guess the user gave for ocp.T / ocp.t0 before transcription (shared with C10)")
def r11_7(ctx):
    """Necessary for 'its starting value is the guess' and for C10's 'guesses given before the first transcription or
    after it produce the same starting point': the promotion handler registers the FreeTime default for the new variable
    with priority, i.e. at the front of the guess table, while a user's entry for the placeholder sits wherever the call
    order left it.  Time-dependent guesses processed in between are evaluated with the default horizon unless the
    registered value is the user's own guess when there is one."""
    P = ctx.prog
    for which, attr, ph in (("T", "_T", "stage.T"), ("t0", "_t0", "stage.t0")):
        f = P.own_method("DirectMethod", "fill_placeholders_" + which)
        sc = ctx.scope(f)
        ini = [c for c in walk_no_nested(f.node) if is_call_to(c, "set_initial", "stage") and len(c.args) >= 2 and ast.unparse(c.args[0]) == "stage.%s" % attr]
        ok = len(ini) == 1
        found = "; ".join(ast.unparse(c) for c in ini)
        if ok:
            v = ini[0].args[1]
            # every way the registered value can be defined: declared default, or the user's entry for the placeholder
            srcs = set()
            names = [v.id] if isinstance(v, ast.Name) else []
            texts = [ast.unparse(v)]
            for nm in names:
                for d in sc.defs.get(nm, []):
                    if d.kind == "assign":
                        for conds, leaf in value_cases(sc, nm):
                            texts.append(ast.unparse(leaf))
            reads_user = any(("_initial" in t and ph in t.replace("self.", "stage.")) for t in texts)
            reads_default = any(t.endswith("%s.T_init" % attr) for t in texts)
            ok = reads_user and reads_default
            found = sorted(set(texts))
        ctx.check(ok, "fill_placeholders_%s: a user's guess for ocp.%s replaces the FreeTime default" % (which, which),
                  detail="default horizon guess registered ahead of (and regardless of) the user's own guess: time-dependent guesses given before transcription are evaluated with the default horizon",
                  expected="init = stage.%s.T_init; replaced by stage._initial[%s] when the user provided one" % (attr, ph), found=found, fi=f, node=(ini[0] if ini else None),
                  sample={"handler": f.qualname, "sources": found})


@rule("R11.8", min_instances=2, desc="re-declaring the horizon as FreeTime(guess) makes that guess the starting value: a guess recorded earlier for ocp.T / ocp.t0 is dropped by set_T / set_t0")
def r11_8(ctx):
    """Since the promotion handler prefers a recorded user guess over the FreeTime default (R11.7), a later set_T(FreeTime(g))
    must withdraw the older record, otherwise 'its starting value is the guess' fails for the new declaration."""
    P = ctx.prog
    for fname, ph in (("set_T", "self.T"), ("set_t0", "self.t0")):
        f = P.own_method("Stage", fname)
        sc = ctx.scope(f)
        drops = [x for x in walk_no_nested(f.node) if (isinstance(x, ast.Delete) and any(ast.unparse(t) == "self._initial[%s]" % ph for t in x.targets)) or
                 (is_call_to(x, "pop", "self._initial") and x.args and ast.unparse(x.args[0]) == ph)]
        ok = bool(drops) and any("FreeTime" in ast.unparse(t) for d in drops for t, p in sc.guards(d) if p)
        ctx.check(ok, "Stage.%s(FreeTime(guess)) withdraws an older guess for the horizon" % fname, detail="a guess recorded earlier with set_initial(ocp.T, ..) overrules the guess of a later FreeTime declaration",
                  expected="if isinstance(value, FreeTime): drop self._initial[%s]" % ph, found="; ".join(ast.unparse(d) for d in drops) or "no withdrawal", fi=f)


@rule("R11.11", min_instances=6, desc="a constraint on the horizon that folds to a constant once a fixed T/t0 is substituted is judged like the free-time constraint restricted to that value: link by link, with the right links (shared with C20: R20.6, R20.7)")
def r11_11(ctx):
    from .c20 import r20_6, r20_7
    r20_6(ctx)
    r20_7(ctx)


@rule("R11.12", min_instances=1, desc="the fixed-number twin keeps the path constraints of the free-time NLP: a chained constraint on horizon quantities whose instance folds to a constant is judged link by link (shared with C20: R20.9)")
def r11_12(ctx):
    from .c20 import r20_9
    r20_9(ctx)
