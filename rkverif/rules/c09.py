"""C09 -- a parametric OCP is the family of OCPs with the values written in.

Decided: creation / value-transfer / set_value tables of the four parameter kinds agree (same
container, same enumeration index), per-interval parameters have N (N+1 with include_last)
columns, set_value records the value in the specification on every path, the p vector of the
dynamics is packed in the order the ODE function declares, a horizon given by a parameter is
evaluated like any other expression of parameters.
Not decided: equality of the NLP data in numbers.
"""
import ast

from ..core import rule
from ..model import AnalysisError
from ..norm import Norm, expected
from ..poly import Poly
from ..paths import walk_no_nested, must_on_all_paths
from ..loops import loop_context, classify_iter
from ..effects import is_call_to
from .c01 import check_pack_order
from .c13 import check_set_value_write_through

LEVEL = "other"

KINDS = ["", "control", "control+", "bspline"]
TARGET = {"": "self.P[{i}]", "control": "hcat(self.P_control[{i}])", "control+": "hcat(self.P_control_plus[{i}])", "bspline": "self.signals[{p}].coeff"}


def param_loops(fi):
    """for [i,] p in [enumerate(]stage.parameters[kind][)] loops: kind -> (loop, ivar, pvar)"""
    out = {}
    for l in walk_no_nested(fi.node):
        if not isinstance(l, ast.For):
            continue
        it = l.iter
        ivar = None
        if is_call_to(it, "enumerate") and it.args:
            it = it.args[0]
            if isinstance(l.target, ast.Tuple) and len(l.target.elts) == 2:
                ivar, pvar = l.target.elts[0].id, l.target.elts[1].id
            else:
                continue
        else:
            pvar = l.target.id if isinstance(l.target, ast.Name) else None
        if isinstance(it, ast.Subscript) and ast.unparse(it.value) == "stage.parameters" and isinstance(it.slice, ast.Constant):
            out.setdefault(it.slice.value, []).append((l, ivar, pvar))
    return out


@rule("R09.1", min_instances=12, desc="writer/reader tables: every parameter kind is created, given its declared value, and updated by set_value through the same container and enumeration index")
def r09_1(ctx):
    prog = ctx.prog
    # creation
    f = prog.own_method("SamplingMethod", "add_parameter")
    pl = param_loops(f)
    n = ctx.norm(f)
    want_create = {"": ("self.P", None), "control": ("self.P_control", "N"), "control+": ("self.P_control_plus", "N+1")}
    for kind, (lst, count) in want_create.items():
        loops = pl.get(kind, [])
        ok = len(loops) == 1
        found = ""
        if ok:
            l, ivar, pvar = loops[0]
            apps = [a for a in ast.walk(l) if is_call_to(a, "append", lst)]
            ok = len(apps) == 1
            if ok:
                a = apps[0].args[0]
                found = ast.unparse(a)
                if count is None:
                    ok = is_call_to(a, "parameter", "opti") and [ast.unparse(x) for x in a.args] == ["%s.shape[0]" % pvar, "%s.shape[1]" % pvar]
                else:
                    ok = isinstance(a, ast.ListComp) and len(a.generators) == 1 and is_call_to(a.elt, "parameter", "opti") and \
                        [ast.unparse(x) for x in a.elt.args] == ["%s.shape[0]" % pvar, "%s.shape[1]" % pvar]
                    if ok:
                        rb = n.poly(a.generators[0].iter.args[0]) if isinstance(a.generators[0].iter, ast.Call) and a.generators[0].iter.args else None
                        ok = rb == expected("self." + count)
        ctx.check(ok, "add_parameter kind '%s'" % kind, detail="creation of Opti parameters",
                  expected="%s gets one Opti parameter%s per declared symbol, of the symbol's shape" % (lst, "" if count is None else " list of length " + count),
                  found=found, fi=f, sample={"kind": kind, "create": found})
    g = prog.own_method("SamplingMethod", "add_parameter_signals")
    pls = param_loops(g)
    ok = len(pls.get("bspline", [])) == 1
    if ok:
        l, ivar, pvar = pls["bspline"][0]
        reg = [c for c in ast.walk(l) if is_call_to(c, "register", "BSplineSignal")]
        ok = len(reg) == 1 and ast.unparse(reg[0].args[0]) == "self.signals" and ast.unparse(reg[0].args[1]) == pvar
    ctx.check(ok, "add_parameter_signals kind 'bspline'", detail="creation of B-spline parameter signals", expected="BSplineSignal.register(self.signals, p, stage, ...) per bspline parameter", found="", fi=g)
    # value transfer and update
    for fname, value_text, guarded in (("set_parameter", "stage._param_value({p})", False), ("set_value", None, True)):
        h = prog.own_method("SamplingMethod", fname)
        pl2 = param_loops(h)
        for kind in KINDS:
            loops = pl2.get(kind, [])
            ok = len(loops) == 1
            found = ""
            if ok:
                l, ivar, pvar = loops[0]
                sets = [c for c in ast.walk(l) if is_call_to(c, "set_value", "opti")]
                ok = len(sets) == 1 and len(sets[0].args) == 2
                if ok:
                    tgt = Norm(None).key(sets[0].args[0])
                    want = Norm(None).key(ast.parse(TARGET[kind].format(i=ivar, p=pvar), mode="eval").body)
                    found = tgt
                    ok = tgt == want
                    if value_text is not None:
                        ok = ok and ast.unparse(sets[0].args[1]) == value_text.format(p=pvar)
                    else:
                        ok = ok and ast.unparse(sets[0].args[1]) == h.params[4]
                    gs = [(ast.unparse(t), p) for t, p in ctx.scope(h).guards(sets[0])]
                    if guarded:
                        ok = ok and gs == [("is_equal(%s, %s)" % (h.params[3], pvar), True)]
                    else:
                        ok = ok and not gs
            ctx.check(ok, "%s kind '%s'" % (fname, kind), detail="value written to another Opti parameter / under another condition",
                      expected="opti.set_value(%s, ...) for the symbol enumerated at the same position" % TARGET[kind].format(i="i", p="p"),
                      found=found, fi=h, sample={"fn": fname, "kind": kind, "target": found})
    # DirectMethod (variable-only stages) handles the global kind with the same index
    for fname in ("set_parameter", "set_value"):
        h = prog.own_method("DirectMethod", fname)
        loops = param_loops(h).get("", [])
        ok = len(loops) == 1
        if ok:
            l, ivar, pvar = loops[0]
            sets = [c for c in ast.walk(l) if is_call_to(c, "set_value", "opti")]
            ok = len(sets) == 1 and ast.unparse(sets[0].args[0]) == "self.P[%s]" % ivar
        ctx.check(ok, "DirectMethod.%s kind ''" % fname, detail="global parameter index", expected="opti.set_value(self.P[i], ...)", found="", fi=h)
    h = prog.own_method("SamplingMethod", "set_value")
    asserts = [a for a in walk_no_nested(h.node) if isinstance(a, ast.Assert) and ast.unparse(a.test) == "found"]
    ctx.check(len(asserts) == 1, "SamplingMethod.set_value rejects a symbol that is no parameter", detail="non-parameter accepted after transcription", expected="assert found", found=str(len(asserts)), fi=h)


@rule("R09.3", min_instances=4, desc="values reach Opti in phase 1 and again in phase 2; per-interval selection at the final node takes the extra column for include_last parameters")
def r09_3(ctx):
    prog = ctx.prog
    t = prog.own_method("SamplingMethod", "transcribe")
    sc = ctx.scope(t)
    from ..ceval import calls_on_path, Unknown
    ph = t.params[2] if len(t.params) > 2 else "phase"
    phases = []
    try:
        for v in (0, 1, 2, 3):
            for c, lp in calls_on_path(t.node, {ph: v}):
                if is_call_to(c, "set_parameter", "self"):
                    phases.append("phase==%d" % v)
    except Unknown as e:
        raise AnalysisError("SamplingMethod.transcribe: phases not decidable: %s" % e)
    phases = sorted(phases)
    ctx.check(phases == ["phase==1", "phase==2"], "SamplingMethod.transcribe transfers parameter values in phase 1 and phase 2", detail="declared values never reach the solver",
              expected="self.set_parameter(stage, opti) under phase==1 and phase==2", found=phases, fi=t)
    # order in phase 1: parameters exist before they are valued
    seq1 = [c.func.attr for c, lp in calls_on_path(t.node, {ph: 1}) if isinstance(c.func, ast.Attribute) and ast.unparse(c.func.value) == "self" and c.func.attr in ("add_parameter", "add_parameter_signals", "set_parameter")]
    ok = seq1.count("add_parameter") == 1 and seq1.count("add_parameter_signals") == 1 and seq1.count("set_parameter") == 1 and seq1.index("set_parameter") > seq1.index("add_parameter") \
        and seq1.index("set_parameter") > seq1.index("add_parameter_signals")
    ctx.check(ok, "parameters are created before their values are set", detail="order in phase 1", expected="add_parameter, add_parameter_signals, then set_parameter", found="", fi=t)
    d = prog.own_method("DirectMethod", "transcribe")
    dc = [c for c in walk_no_nested(d.node) if is_call_to(c, "set_parameter", "self")]
    ctx.check(len(dc) == 1, "DirectMethod.transcribe transfers parameter values", detail="variable-only stage", expected="self.set_parameter(stage, self.opti)", found=str(len(dc)), fi=d)
    pv = prog.own_method("Stage", "_param_value")
    rets = [r for r in walk_no_nested(pv.node) if isinstance(r, ast.Return) and r.value is not None]
    ok = len(rets) == 1 and ast.unparse(rets[0].value) == "self._param_vals[%s]" % pv.params[1]
    ctx.check(ok, "Stage._param_value returns the value declared for that very symbol", detail="value of another parameter", expected="self._param_vals[p]", found="; ".join(ast.unparse(r.value) for r in rets), fi=pv)


@rule("R09.4", min_instances=1, desc="write-through: Stage.set_value records the value in the specification on every non-raising path (so it survives any later re-transcription, save/load, method change)")
def r09_4(ctx):
    check_set_value_write_through(ctx)


@rule("R09.5", min_instances=8, desc="pack order of parameter values handed to the dynamics")
def r09_5(ctx):
    check_pack_order(ctx)


@rule("R09.6", min_instances=4, desc="a horizon given by a parameter (or any expression of parameters/variables) is evaluated by the same substitution as every other expression")
def r09_6(ctx):
    prog = ctx.prog
    f = prog.own_method("SamplingMethod", "add_variables_V")
    n = ctx.norm(f)
    asg = {}
    for st in walk_no_nested(f.node):
        if isinstance(st, ast.Assign) and len(st.targets) == 1:
            asg[ast.unparse(st.targets[0])] = st.value
    for attr, src in (("self.T", "stage._T"), ("self.t0", "stage._t0")):
        v = asg.get(attr)
        ok = v is not None and n.key(v) == "self.eval(stage,%s)" % src
        ctx.check(ok, "method.%s = eval(stage, %s)" % (attr.split(".")[1], src), detail="horizon not evaluated from the declaration", expected="self.eval(stage, %s)" % src,
                  found=ast.unparse(v) if v is not None else None, fi=f)
    e = prog.own_method("SamplingMethod", "eval")
    ne = ctx.norm(e)
    calls = [c for c in walk_no_nested(e.node) if isinstance(c, ast.Call) and isinstance(c.func, ast.Attribute) and c.func.attr == "_expr_apply"]
    ok = len(calls) == 1
    if ok:
        kw = {k.arg: ne.key(k.value) for k in calls[0].keywords}
        ok = kw.get("p") == "veccat(*self.P)" and kw.get("v") == "self.V" and kw.get("t0") == "stage.t0" and kw.get("T") == "stage.T"
    ctx.check(ok, "SamplingMethod.eval substitutes global parameters and variables", detail="global substitution", expected="p=veccat(*self.P), v=self.V", found="", fi=e)
    et = prog.own_method("DirectMethod", "eval_top")
    rets = [r for r in walk_no_nested(et.node) if isinstance(r, ast.Return) and r.value is not None]
    ok = len(rets) == 1 and Norm(None).key(rets[0].value) == Norm(None).key(ast.parse(
        "substitute(MX(expr),veccat(*(stage.variables['']+stage.parameters[''])),vertcat(self.V,veccat(*self.P)))", mode="eval").body)
    ctx.check(ok, "DirectMethod.eval_top pairs [variables, parameters] with [V, P] in the same order", detail="symbols and values paired in different orders",
              expected="substitute(expr, veccat(variables['']+parameters['']), vertcat(V, veccat(P)))", found="; ".join(ast.unparse(r.value) for r in rets), fi=et)
    # order: parameters exist before T is evaluated (T may be a parameter)
    t = prog.own_method("SamplingMethod", "transcribe")
    sc = ctx.scope(t)
    ap = [c for c in walk_no_nested(t.node) if is_call_to(c, "add_parameter", "self")]
    av = [c for c in walk_no_nested(t.node) if is_call_to(c, "add_variables", "self")]
    ok = len(ap) == 1 and len(av) == 1 and sc.order[ap[0]] < sc.order[av[0]]
    ctx.check(ok, "global parameters exist before the horizon is evaluated", detail="order in phase 1", expected="add_parameter before add_variables", found="", fi=t)


@rule("R09.7", min_instances=40, desc="column k of a per-interval parameter is what the evaluators substitute at interval/node k; at the final node the extra column of include_last parameters (the last column otherwise)")
def r09_7(ctx):
    from .c04 import check_evaluator_slots
    check_evaluator_slots(ctx)


@rule("R09.8", min_instances=30, desc="parameter values of stages created from one template are independent (clone copies the value table; shared with C12)")
def r09_8(ctx):
    from .c12 import r12_2
    r12_2(ctx)


@rule("R09.9", min_instances=4, desc="grid coupling constraints are kept for a horizon given by a parameter (only rows that are parametric as a whole are skipped; shared with C06)")
def r09_9(ctx):
    from .c06 import check_coupling
    check_coupling(ctx, only_localisable=True)


@rule("R09.10", min_instances=12, desc="the dynamics of interval k see the parameter columns of interval k under every method: model slot tables of the collocation defect equations and of the shooting step calls (shared with C02 / C01)")
def r09_10(ctx):
    from .c02 import r02_2
    from .c01 import r01_4, r01_6
    r02_2(ctx)
    r01_4(ctx)
    r01_6(ctx)   # get_p_sys hands every per-interval helper the interval index k (never a default)


@rule("R09.11", min_instances=6, desc="a value given for a concatenation of symbols is split among them by their own sizes, in order (for_all_primitives: used by set_value, set_initial, set_der, set_next)")
def r09_11(ctx):
    """`ocp.set_value(vertcat(a, b), v)`: primitive i receives the entries [offset_i, offset_i + nnz_i) of the flattened
    value with offset_i = sum of the sizes of its predecessors; a single symbol receives the value unchanged."""
    P = ctx.prog
    f = P.function("casadi_helpers", "for_all_primitives")
    sc = ctx.scope(f)
    expr, rhs, cb = f.params[0], f.params[1], f.params[2]
    calls = [c for c in walk_no_nested(f.node) if isinstance(c, ast.Call) and isinstance(c.func, ast.Name) and c.func.id == cb]
    single = [c for c in calls if not sc.enclosing_loops(c)]
    ok = len(single) == 1 and [ast.unparse(a) for a in single[0].args] == [expr, rhs] and any(ast.unparse(t) == "%s.is_symbolic()" % expr and p for t, p in sc.path_guards(single[0]))
    ctx.check(ok, "for_all_primitives hands a single symbol its value unchanged", detail="single-symbol shortcut", expected="if expr.is_symbolic(): callback(expr, rhs)", found="; ".join(ast.unparse(c) for c in single), fi=f)
    looped = [c for c in calls if sc.enclosing_loops(c)]
    ok = len(looped) == 1
    ctx.check(ok, "for_all_primitives calls back once per primitive", detail="per-primitive callback", expected="for p in expr.primitives(): callback(p, <its slice>)", found=str(len(looped)), fi=f)
    if not ok:
        return
    c = looped[0]
    lp = sc.enclosing_loops(c)[-1]
    n = Norm(sc)
    pv = lp[0].id if isinstance(lp[0], ast.Name) else None
    okl = pv is not None and n.key(lp[1]) == Norm(None).key(ast.parse("%s.primitives()" % expr, mode="eval").body)
    ctx.check(okl, "for_all_primitives walks the primitives of the expression in order", detail="iteration", expected="for p in expr.primitives()", found=ast.unparse(lp[1]), fi=f)
    if not okl:
        return
    # the slice handed to primitive p
    sl = [x for x in ast.walk(c.args[1]) if isinstance(x, ast.Subscript) and isinstance(x.slice, ast.Slice)] if len(c.args) == 2 else []
    ok = len(sl) == 1 and ast.unparse(c.args[0]) == pv and sl[0].slice.lower is not None and sl[0].slice.upper is not None and isinstance(sl[0].slice.lower, ast.Name)
    ctx.check(ok, "primitive p receives a slice [offset : offset + size)", detail="slice form", expected="rhs[offset:offset+p.nnz()]", found=ast.unparse(c.args[1]) if len(c.args) == 2 else "", fi=f)
    if not ok:
        return
    off = sl[0].slice.lower.id
    width = Norm(None).poly(sl[0].slice.upper) - Norm(None).poly(sl[0].slice.lower)
    ctx.check(width == expected("%s.nnz()" % pv), "the slice of primitive p has p.nnz() entries", detail="slice width", expected="%s.nnz()" % pv, found=str(width), fi=f, sample={"width": str(width)})
    shaped = is_call_to(c.args[1], f.params[4]) or (isinstance(c.args[1], ast.Call) and len(c.args[1].args) == 2)
    ctx.check(shaped and ast.unparse(c.args[1].args[0]) == "%s.sparsity()" % pv, "the slice is reshaped to p's own sparsity", detail="element layout of matrix-valued symbols", expected="rhs_type(p.sparsity(), slice)",
              found=ast.unparse(c.args[1])[:80], fi=f)
    inits = [d for d in sc.defs.get(off, []) if d.kind == "assign" and not sc.enclosing_loops(d.stmt)]
    upd = [d for d in sc.defs.get(off, []) if d.kind in ("assign", "aug") and sc.enclosing_loops(d.stmt) and sc.enclosing_loops(d.stmt)[-1][2] is lp[2]]
    loopdef = [d for d in sc.defs.get(off, []) if d.kind == "for"]
    ok = len(inits) == 1 and ast.unparse(inits[0].value) == "0" and len(upd) == 1 and not loopdef and sc.order[upd[0].stmt] > sc.order[c]
    if ok:
        st = upd[0].stmt
        if isinstance(st, ast.AugAssign):
            ok = isinstance(st.op, ast.Add) and Norm(None).poly(st.value) == expected("%s.nnz()" % pv)
        else:
            ok = Norm(None).poly(st.value) == Poly.atom(off) + expected("%s.nnz()" % pv)
        ok = ok and not [g for g in sc.guards(st) if g not in sc.guards(c)]
    ctx.check(ok, "the offset starts at 0 and advances by the size of each primitive after it was served", detail="entries of a multi-entry symbol handed to its successor (values shifted)",
              expected="offset = 0; per primitive: callback(...); offset += p.nnz()", found="; ".join(ast.unparse(d.stmt) for d in inits + upd + loopdef), fi=f, sample={"offset": [ast.unparse(d.stmt) for d in inits + upd]})


@rule("R09.12", min_instances=1, desc="the starting point follows a parameter change: guesses are stored in Opti as numbers, so a value written through to a live transcription must be followed by a re-application of the guess table")
def r09_12(ctx):
    """`set_initial(x, a*ocp.t)` (a a parameter), or any time-dependent guess with a horizon given by a parameter: the
    guess table is evaluated numerically (opti.debug.value(expr, opti.initial())) whenever it is applied; after
    Stage.set_value pushes a new parameter value into the live Opti, only a re-application can refresh those numbers."""
    P = ctx.prog
    f = P.own_method("Stage", "set_value")
    fns = [f] + list(__import__("rkverif.model", fromlist=["nested_functions"]).nested_functions(f).values())
    wt = [(g, c) for g in fns for c in walk_no_nested(g.node) if is_call_to(c, "set_value", "self._method")]
    re = [(g, c) for g in fns for c in walk_no_nested(g.node) if is_call_to(c, "apply_initial", "self._method") or is_call_to(c, "set_initial", "self._method")]
    ctx.check(len(wt) >= 1, "Stage.set_value writes the value through to a live transcription", detail="write-through", expected="self._method.set_value(...)", found=str(len(wt)), fi=f)
    ctx.check(bool(re), "Stage.set_value", detail="guesses that depend on the parameter (or on a parametric horizon) keep the numbers computed with the old value: the starting point differs from the same OCP written with the new value",
              expected="after the write-through: self._method.apply_initial(self._augmented, self.master._method, self._initial)", found="no re-application of the guess table", fi=f,
              sample={"write_through": [ast.unparse(c)[:80] for _, c in wt]})


@rule("R09.13", min_instances=2, desc="declaring a list of symbols is declaring each of them: the list form of register_variable / register_parameter forwards every declaration argument (grid, order, scale, include_last, domain, meta)")
def r09_13(ctx):
    """register_parameter([p, q], grid='control') must create per-interval parameters like two single calls do; a
    dropped argument silently falls back to its default (grid='' = one global value for the whole horizon)."""
    P = ctx.prog
    for fname in ("register_variable", "register_parameter"):
        f = P.own_method("Stage", fname)
        rec = [c for c in walk_no_nested(f.node) if is_call_to(c, fname, "self")]
        ok = len(rec) == 1
        missing = []
        if ok:
            c = rec[0]
            passed = {k.arg: ast.unparse(k.value) for k in c.keywords if k.arg}
            # positional arguments after the element count too
            for pname, a in zip(f.params[2:], c.args[1:]):
                passed[pname] = ast.unparse(a)
            for pname in f.params[2:]:
                if passed.get(pname) != pname:
                    missing.append(pname)
            ok = not missing
        ctx.check(ok, "Stage.%s: the list form forwards every declaration argument" % fname, detail="arguments dropped for the members of a list (they silently get the defaults: e.g. grid='' instead of 'control')",
                  expected="self.%s(e, %s)" % (fname, ", ".join("%s=%s" % (p_, p_) for p_ in f.params[2:])), found="not forwarded: %s" % ", ".join(missing) if rec else "no recursive call", fi=f,
                  node=(rec[0] if rec else None), sample={"fn": fname, "missing": missing})


@rule("R09.14", min_instances=1, desc="a parameter keeps the value it was given until the next set_value: the specification stores its own copy of the value, not the caller's (mutable) object")
def r09_14(ctx):
    """`buf = np.array([1.]); ocp.set_value(p, buf); buf[0] = 2` must not change the OCP: the recorded value is read again at
    every (re-)transcription, so an alias of the caller's array makes the NLP depend on later mutations of that array."""
    from ..model import nested_functions
    P = ctx.prog
    f = P.own_method("Stage", "set_value")
    fns = [f] + list(nested_functions(f).values())
    stores = [(g, st) for g in fns for st in walk_no_nested(g.node) if isinstance(st, ast.Assign) and isinstance(st.targets[0], ast.Subscript) and ast.unparse(st.targets[0].value) == "self._param_vals"]
    ctx.check(len(stores) >= 1, "Stage.set_value records the value", detail="record", expected="self._param_vals[parameter] = <copy of value>", found=str(len(stores)), fi=f)
    COPIERS = ("DM", "deepcopy", "copy.deepcopy", "np.array", "numpy.array", "copy", "copy.copy", "np.copy")
    for g, st in stores:
        v = st.value
        sc = ctx.scope(g)
        if isinstance(v, ast.Name):
            v = sc.reaching(v.id, v) or v
        copied = isinstance(v, ast.Call) and ast.unparse(v.func) in COPIERS
        ctx.check(copied, "Stage.set_value stores a private copy of the value", detail="the caller's object is stored by reference: mutating it afterwards silently changes the parameter value used by the next (re-)transcription",
                  expected="self._param_vals[parameter] = copy.deepcopy(value) (or DM(value))", found=ast.unparse(st), fi=g, node=st, sample={"store": ast.unparse(st)})
