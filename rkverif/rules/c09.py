"""C09 -- a parametric OCP is the family of OCPs with the values written in.

Decided: creation / value-transfer / set_value tables of the four parameter kinds agree (same
container, same enumeration index), per-interval parameters have N (N+1 with include_last)
columns, set_value records the value in the specification on every path, the p vector of the
dynamics is packed in the order the ODE function declares, a horizon given by a parameter is
evaluated like any other expression of parameters.
Not decided: equality of the NLP data in numbers.
"""
import ast

from ..core import rule
from ..model import AnalysisError
from ..norm import Norm, expected
from ..poly import Poly
from ..paths import walk_no_nested, must_on_all_paths
from ..loops import loop_context, classify_iter
from ..effects import is_call_to
from .c01 import check_pack_order
from .c13 import check_set_value_write_through

LEVEL = "other"

KINDS = ["", "control", "control+", "bspline"]
TARGET = {"": "self.P[{i}]", "control": "hcat(self.P_control[{i}])", "control+": "hcat(self.P_control_plus[{i}])", "bspline": "self.signals[{p}].coeff"}


def param_loops(fi):
    """for [i,] p in [enumerate(]stage.parameters[kind][)] loops: kind -> (loop, ivar, pvar)"""
    out = {}
    for l in walk_no_nested(fi.node):
        if not isinstance(l, ast.For):
            continue
        it = l.iter
        ivar = None
        if is_call_to(it, "enumerate") and it.args:
            it = it.args[0]
            if isinstance(l.target, ast.Tuple) and len(l.target.elts) == 2:
                ivar, pvar = l.target.elts[0].id, l.target.elts[1].id
            else:
                continue
        else:
            pvar = l.target.id if isinstance(l.target, ast.Name) else None
        if isinstance(it, ast.Subscript) and ast.unparse(it.value) == "stage.parameters" and isinstance(it.slice, ast.Constant):
            out.setdefault(it.slice.value, []).append((l, ivar, pvar))
    return out


def parameter_scenario(ctx, cname):
    """add_parameter / add_parameter_signals / set_parameter / set_value of a method class, run by the simulator (rkverif/sim.py)
    on a stage with two global parameters, one per-interval, one per-interval-with-final-node and one B-spline parameter (all of
    different shapes, so that an Opti parameter can be told by the shape it was created with).  Returns what was created for which
    declared symbol and which value went where."""
    from ..sim import Sim, fresh_obj
    from ..layout import Sym, Obj, freeze, LayoutUnknown
    P = ctx.prog
    cache = P.__dict__.setdefault("_param_scenario", {})
    if cname in cache:
        return cache[cname]
    N = 3
    def par(name, r, c=1):
        return fresh_obj(name, shape=(r, c), _rows=r)
    decl = {"": [par("p0", 2), par("p1", 3)], "control": [par("pc0", 4)], "control+": [par("pp0", 5)], "bspline": [par("pb0", 6)]}
    if cname == "DirectMethod":
        decl = {"": decl[""], "control": [], "control+": [], "bspline": []}
    by_shape = {}
    for kind, lst in decl.items():
        for o in lst:
            by_shape[o.attrs["_rows"]] = (kind, o.name)
    created = []

    def h_parameter(sim, recv, a, k, n):
        created.append(tuple(a))
        return Sym("optiparam", len(created) - 1, tuple(freeze(x) for x in a))
    writes = []

    def h_set_value(sim, recv, a, k, n):
        writes.append((a[0], a[1]))
        return None
    sig_table = {}

    def h_register(sim, recv, a, k, n):
        # BSplineSignal.register(signals, symbol, stage, signal)
        if isinstance(a[0], dict):
            a[0][freeze(a[1])] = a[3]
        return None
    catalog = {freeze(o): {"order": 1} for o in decl["bspline"]}
    stage = fresh_obj("stage", parameters={k: list(v) for k, v in decl.items()}, _catalog=catalog)
    hooks = {"opti.parameter": h_parameter, "opti.set_value": h_set_value, "BSplineSignal.register": h_register,
             "BSplineSignal": lambda s_, r, a, k, n: fresh_obj("signal", coeff=a[0], parametric=k.get("parametric", a[4] if len(a) > 4 else False)),
             ".size1": lambda s_, r, a, k, n: r.attrs["shape"][0] if isinstance(r, Obj) and "shape" in r.attrs else NotImplemented,
             ".size2": lambda s_, r, a, k, n: r.attrs["shape"][1] if isinstance(r, Obj) and "shape" in r.attrs else NotImplemented,
             "._param_value": lambda s_, r, a, k, n: Sym("declared_value", a[0].name if isinstance(a[0], Obj) else freeze(a[0])),
             "is_equal": lambda s_, r, a, k, n: a[0] is a[1] or freeze(a[0]) == freeze(a[1]),
             # representation changes of a value (dense / DM) do not change which value it is
             "ca.densify": lambda s_, r, a, k, n: a[0], "densify": lambda s_, r, a, k, n: a[0], "DM": lambda s_, r, a, k, n: a[0] if len(a) == 1 else NotImplemented,
             "ca.DM": lambda s_, r, a, k, n: a[0] if len(a) == 1 else NotImplemented,
             "hcat": lambda s_, r, a, k, n: Sym("hcat", tuple(freeze(x) for x in a[0])) if a and isinstance(a[0], list) else NotImplemented}
    me = fresh_obj("self", N=N, P=[], P_control=[], P_control_plus=[], signals={}, xi=Sym("xi"), T=Sym("T"))
    out = {"created": None, "transfer": None, "updates": {}, "reject": None, "error": None}
    try:
        sim = Sim(P, hooks=hooks)
        sim.check_asserts = True
        if cname == "DirectMethod":
            sim.call(P.own_method("DirectMethod", "add_parameters"), [me, stage, Sym("opti")], {})
        else:
            sim.call(P.method(cname, "add_parameter"), [me, stage, Sym("opti")], {})
            sim.call(P.method(cname, "add_parameter_signals"), [me, stage, Sym("opti")], {})
        # which Opti parameter belongs to which declared symbol
        owner = {}
        def own(x, who):
            if isinstance(x, Sym) and x.op == "optiparam":
                owner[x.args[0]] = who
            elif isinstance(x, list):
                for y in x:
                    own(y, who)
        for i_, o in enumerate(decl[""]):
            if i_ < len(me.attrs["P"]):
                own(me.attrs["P"][i_], o.name)
        for key, attr in (("control", "P_control"), ("control+", "P_control_plus")):
            for i_, o in enumerate(decl[key]):
                if i_ < len(me.attrs[attr]):
                    own(me.attrs[attr][i_], o.name)
        for o in decl["bspline"]:
            sg = me.attrs["signals"].get(freeze(o))
            if isinstance(sg, Obj):
                own(sg.attrs.get("coeff"), o.name)
        out["created"] = {"P": [len(me.attrs["P"])], "P_control": [len(x) if isinstance(x, list) else None for x in me.attrs["P_control"]],
                          "P_control_plus": [len(x) if isinstance(x, list) else None for x in me.attrs["P_control_plus"]], "signals": len(me.attrs["signals"]),
                          "shapes": {idx: by_shape.get(created[idx][0] if created[idx] and isinstance(created[idx][0], int) else None, (None, None))[1] for idx in owner},
                          "owner": dict(owner), "n": len(created)}

        def targets(t):
            ids = set()
            stack = [freeze(t)]
            while stack:
                y = stack.pop()
                if isinstance(y, tuple):
                    if len(y) >= 2 and y[0] == "optiparam":
                        ids.add(y[1])
                    else:
                        stack.extend(y)
            return ids
        # declared values
        writes.clear()
        sp = P.method(cname, "set_parameter")
        sim.call(sp, [me, stage, Sym("opti")], {})
        out["transfer"] = [(sorted(set(owner.get(i_) for i_ in targets(t))), freeze(v)) for t, v in writes]
        # set_value of each symbol, and of a symbol that is no parameter
        sv = P.method(cname, "set_value")
        for kind, lst in decl.items():
            for o in lst:
                writes.clear()
                sim.call(sv, [me, stage, fresh_obj("master", opti=Sym("opti")), o, Sym("new_value")], {})
                out["updates"][o.name] = [(sorted(set(owner.get(i_) for i_ in targets(t))), len(targets(t)), freeze(v)) for t, v in writes]
        writes.clear()
        try:
            sim.call(sv, [me, stage, fresh_obj("master", opti=Sym("opti")), par("stranger", 9), Sym("new_value")], {})
            out["reject"] = "accepted (%d writes)" % len(writes)
        except LayoutUnknown as e:
            out["reject"] = "rejected" if ("assert failed" in str(e) or "raise reached" in str(e)) else "unknown: %s" % e
    except LayoutUnknown as e:
        out["error"] = str(e)
    out["decl"] = {k: [o.name for o in v] for k, v in decl.items()}
    out["N"] = N
    cache[cname] = out
    return out


@rule("R09.1", min_instances=12, desc="writer/reader tables: every parameter kind is created with its own shape and count, given its declared value, and updated by set_value through the Opti parameters created for that very symbol - decided on simulated add_parameter / set_parameter / set_value")
def r09_1(ctx):
    from ..layout import Sym, freeze
    prog = ctx.prog
    for cname in ("SamplingMethod", "DirectMethod"):
        f = prog.method(cname, "set_value")
        r = parameter_scenario(ctx, cname)
        if r["error"]:
            raise AnalysisError("%s parameter functions could not be simulated: %s" % (cname, r["error"]))
        N = r["N"]
        decl = r["decl"]
        c = r["created"]
        label = "" if cname == "SamplingMethod" else "DirectMethod."
        ok = c["P"] == [len(decl[""])] and c["P_control"] == [N] * len(decl["control"]) and c["P_control_plus"] == [N + 1] * len(decl["control+"]) and c["signals"] == len(decl["bspline"])
        ctx.check(ok, "%sadd_parameter creates one Opti parameter per global symbol, N per per-interval symbol, N+1 with include_last, one coefficient matrix per B-spline parameter" % label,
                  detail="creation of Opti parameters", expected="P: %d, P_control: %s, P_control_plus: %s, signals: %d" % (len(decl[""]), [N] * len(decl["control"]), [N + 1] * len(decl["control+"]), len(decl["bspline"])),
                  found=str({k: c[k] for k in ("P", "P_control", "P_control_plus", "signals")}), fi=prog.method(cname, "add_parameter") if cname == "SamplingMethod" else prog.own_method("DirectMethod", "add_parameters"), sample={"created": str(c)[:200]})
        bad = {i_: (who, c["shapes"].get(i_)) for i_, who in c["owner"].items() if c["shapes"].get(i_) != who}
        ctx.check(not bad, "%severy Opti parameter has the shape of the symbol it stands for" % label, detail="creation of Opti parameters (shape of another symbol)", expected="opti.parameter(<rows of p>, ..) stored at p's position",
                  found=str(bad)[:160], fi=f)
        want = sorted(([name], freeze(Sym("declared_value", name))) for k, lst in decl.items() for name in lst)
        got = sorted((t, v) for t, v in r["transfer"])
        ctx.check(got == want, "%sset_parameter hands every declared value to the Opti parameters of its own symbol" % label, detail="value written to another Opti parameter / under another condition",
                  expected=want, found=got, fi=prog.method(cname, "set_parameter"), sample={"transfer": str(got)[:200]})
        for kind, lst in decl.items():
            for name in lst:
                ups = r["updates"].get(name)
                n_expected = {"": 1, "control": N, "control+": N + 1, "bspline": 1}[kind]
                ok = ups is not None and len(ups) == 1 and ups[0][0] == [name] and ups[0][1] == n_expected and ups[0][2] == freeze(Sym("new_value"))
                ctx.check(ok, "%sset_value kind '%s'" % (label, kind), detail="value written to another Opti parameter / under another condition",
                          expected="one write of the new value to the %d Opti parameter(s) created for %s" % (n_expected, name), found=str(ups)[:160], fi=f, sample={"fn": "set_value", "kind": kind, "target": str(ups)[:80]})
        ctx.check(r["reject"] == "rejected", "%s.set_value rejects a symbol that is no parameter" % cname, detail="non-parameter accepted after transcription", expected="assertion / exception",
                  found=r["reject"], fi=f)


@rule("R09.3", min_instances=4, desc="values reach Opti in phase 1 and again in phase 2; per-interval selection at the final node takes the extra column for include_last parameters")
def r09_3(ctx):
    prog = ctx.prog
    t = prog.own_method("SamplingMethod", "transcribe")
    sc = ctx.scope(t)
    from ..ceval import calls_on_path, Unknown
    ph = t.params[2] if len(t.params) > 2 else "phase"
    phases = []
    try:
        for v in (0, 1, 2, 3):
            for c, lp in calls_on_path(t.node, {ph: v}):
                if is_call_to(c, "set_parameter", "self"):
                    phases.append("phase==%d" % v)
    except Unknown as e:
        raise AnalysisError("SamplingMethod.transcribe: phases not decidable: %s" % e)
    phases = sorted(phases)
    ctx.check(phases == ["phase==1", "phase==2"], "SamplingMethod.transcribe transfers parameter values in phase 1 and phase 2", detail="declared values never reach the solver",
              expected="self.set_parameter(stage, opti) under phase==1 and phase==2", found=phases, fi=t)
    # order in phase 1: parameters exist before they are valued
    seq1 = [c.func.attr for c, lp in calls_on_path(t.node, {ph: 1}) if isinstance(c.func, ast.Attribute) and ast.unparse(c.func.value) == "self" and c.func.attr in ("add_parameter", "add_parameter_signals", "set_parameter")]
    ok = seq1.count("add_parameter") == 1 and seq1.count("add_parameter_signals") == 1 and seq1.count("set_parameter") == 1 and seq1.index("set_parameter") > seq1.index("add_parameter") \
        and seq1.index("set_parameter") > seq1.index("add_parameter_signals")
    ctx.check(ok, "parameters are created before their values are set", detail="order in phase 1", expected="add_parameter, add_parameter_signals, then set_parameter", found="", fi=t)
    d = prog.own_method("DirectMethod", "transcribe")
    dc = [c for c in walk_no_nested(d.node) if is_call_to(c, "set_parameter", "self")]
    ctx.check(len(dc) == 1, "DirectMethod.transcribe transfers parameter values", detail="variable-only stage", expected="self.set_parameter(stage, self.opti)", found=str(len(dc)), fi=d)
    pv = prog.own_method("Stage", "_param_value")
    rets = [r for r in walk_no_nested(pv.node) if isinstance(r, ast.Return) and r.value is not None]
    ok = len(rets) == 1 and ast.unparse(rets[0].value) == "self._param_vals[%s]" % pv.params[1]
    ctx.check(ok, "Stage._param_value returns the value declared for that very symbol", detail="value of another parameter", expected="self._param_vals[p]", found="; ".join(ast.unparse(r.value) for r in rets), fi=pv)


@rule("R09.4", min_instances=1, desc="write-through: Stage.set_value records the value in the specification on every non-raising path (so it survives any later re-transcription, save/load, method change)")
def r09_4(ctx):
    check_set_value_write_through(ctx)


@rule("R09.5", min_instances=8, desc="pack order of parameter values handed to the dynamics")
def r09_5(ctx):
    check_pack_order(ctx)


@rule("R09.6", min_instances=4, desc="a horizon given by a parameter (or any expression of parameters/variables) is evaluated by the same substitution as every other expression")
def r09_6(ctx):
    prog = ctx.prog
    f = prog.own_method("SamplingMethod", "add_variables_V")
    n = ctx.norm(f)
    asg = {}
    for st in walk_no_nested(f.node):
        if isinstance(st, ast.Assign) and len(st.targets) == 1:
            asg[ast.unparse(st.targets[0])] = st.value
    for attr, src in (("self.T", "stage._T"), ("self.t0", "stage._t0")):
        v = asg.get(attr)
        ok = v is not None and n.key(v) == "self.eval(stage,%s)" % src
        ctx.check(ok, "method.%s = eval(stage, %s)" % (attr.split(".")[1], src), detail="horizon not evaluated from the declaration", expected="self.eval(stage, %s)" % src,
                  found=ast.unparse(v) if v is not None else None, fi=f)
    e = prog.own_method("SamplingMethod", "eval")
    ne = ctx.norm(e)
    calls = [c for c in walk_no_nested(e.node) if isinstance(c, ast.Call) and isinstance(c.func, ast.Attribute) and c.func.attr == "_expr_apply"]
    ok = len(calls) == 1
    if ok:
        kw = {k.arg: ne.key(k.value) for k in calls[0].keywords}
        ok = kw.get("p") == "veccat(*self.P)" and kw.get("v") == "self.V" and kw.get("t0") == "stage.t0" and kw.get("T") == "stage.T"
    ctx.check(ok, "SamplingMethod.eval substitutes global parameters and variables", detail="global substitution", expected="p=veccat(*self.P), v=self.V", found="", fi=e)
    et = prog.own_method("DirectMethod", "eval_top")
    rets = [r for r in walk_no_nested(et.node) if isinstance(r, ast.Return) and r.value is not None]
    ok = len(rets) == 1 and Norm(None).key(rets[0].value) == Norm(None).key(ast.parse(
        "substitute(MX(expr),veccat(*(stage.variables['']+stage.parameters[''])),vertcat(self.V,veccat(*self.P)))", mode="eval").body)
    ctx.check(ok, "DirectMethod.eval_top pairs [variables, parameters] with [V, P] in the same order", detail="symbols and values paired in different orders",
              expected="substitute(expr, veccat(variables['']+parameters['']), vertcat(V, veccat(P)))", found="; ".join(ast.unparse(r.value) for r in rets), fi=et)
    # order: parameters exist before T is evaluated (T may be a parameter)
    t = prog.own_method("SamplingMethod", "transcribe")
    sc = ctx.scope(t)
    ap = [c for c in walk_no_nested(t.node) if is_call_to(c, "add_parameter", "self")]
    av = [c for c in walk_no_nested(t.node) if is_call_to(c, "add_variables", "self")]
    ok = len(ap) == 1 and len(av) == 1 and sc.order[ap[0]] < sc.order[av[0]]
    ctx.check(ok, "global parameters exist before the horizon is evaluated", detail="order in phase 1", expected="add_parameter before add_variables", found="", fi=t)


@rule("R09.7", min_instances=40, desc="column k of a per-interval parameter is what the evaluators substitute at interval/node k; at the final node the extra column of include_last parameters (the last column otherwise)")
def r09_7(ctx):
    from .c04 import check_evaluator_slots
    check_evaluator_slots(ctx)


@rule("R09.8", min_instances=30, desc="parameter values of stages created from one template are independent (clone copies the value table; shared with C12)")
def r09_8(ctx):
    from .c12 import r12_2
    r12_2(ctx)


@rule("R09.9", min_instances=4, desc="grid coupling constraints are kept for a horizon given by a parameter (only rows that are parametric as a whole are skipped; shared with C06)")
def r09_9(ctx):
    from .c06 import check_coupling
    check_coupling(ctx, only_localisable=True)


@rule("R09.10", min_instances=12, desc="the dynamics of interval k see the parameter columns of interval k under every method: model slot tables of the collocation defect equations and of the shooting step calls (shared with C02 / C01)")
def r09_10(ctx):
    from .c02 import r02_2
    from .c01 import r01_4, r01_6
    r02_2(ctx)
    r01_4(ctx)
    r01_6(ctx)   # get_p_sys hands every per-interval helper the interval index k (never a default)


@rule("R09.11", min_instances=6, desc="a value given for a concatenation of symbols is split among them by their own sizes, in order (for_all_primitives: used by set_value, set_initial, set_der, set_next) - decided on simulated calls with one symbol and with a concatenation of three symbols of sizes 2, 1, 3")
def r09_11(ctx):
    """`ocp.set_value(vertcat(a, b), v)`: primitive i receives the entries [offset_i, offset_i + nnz_i) of the flattened
    value with offset_i = sum of the sizes of its predecessors; a single symbol receives the value unchanged; anything that is
    neither a symbol nor a concatenation of symbols is rejected."""
    from ..sim import Sim, fresh_obj
    from ..layout import Sym, Obj, freeze, LayoutUnknown
    P = ctx.prog
    f = P.function("casadi_helpers", "for_all_primitives")
    sizes = [2, 1, 3]
    prims = [fresh_obj("prim%d" % i, n=n_) for i, n_ in enumerate(sizes)]
    labels = ["r%d" % i for i in range(sum(sizes))]
    results = {}
    for case in ("single", "concat", "invalid"):
        got = []
        expr = fresh_obj("expr", kind=case)

        def h_callable(sim, target, args, kwargs, n, got=got):
            if isinstance(target, Sym) and target.op == "param" and target.args[0] == f.params[2]:
                got.append((args[0], args[1]))
                return None
            if isinstance(target, Sym) and target.op == "param" and len(f.params) > 4 and target.args[0] == f.params[4]:
                return ("typed",) + tuple(args)
            return NotImplemented
        hooks = {"*callable": h_callable,
                 ".is_symbolic": lambda s_, r, a, k, n, case=case: case == "single" if isinstance(r, Obj) and r.name == "expr" else NotImplemented,
                 ".is_valid_input": lambda s_, r, a, k, n, case=case: case != "invalid" if isinstance(r, Obj) and r.name == "expr" else NotImplemented,
                 ".is_scalar": lambda s_, r, a, k, n: False, ".primitives": lambda s_, r, a, k, n: list(prims) if isinstance(r, Obj) and r.name == "expr" else NotImplemented,
                 ".nnz": lambda s_, r, a, k, n: r.attrs["n"] if isinstance(r, Obj) and "n" in r.attrs else NotImplemented,
                 ".numel": lambda s_, r, a, k, n: r.attrs["n"] if isinstance(r, Obj) and "n" in r.attrs else NotImplemented,
                 ".sparsity": lambda s_, r, a, k, n: Sym("sparsity", r.name if isinstance(r, Obj) else freeze(r)),
                 "vec": lambda s_, r, a, k, n: Sym("vec", freeze(a[0]))}
        sim = Sim(P, hooks=hooks)
        sim.attr_hooks = {"nz": lambda o: list(labels) if isinstance(o, (Sym, tuple)) else NotImplemented}
        try:
            sim.call(f, [expr, Sym("value"), Sym("param", f.params[2]), "message"] + ([Sym("param", f.params[4])] if len(f.params) > 4 else []), {})
            results[case] = got
        except LayoutUnknown as e:
            results[case] = "<raise>" if "raise reached" in str(e) else "<unknown: %s>" % e
    for case, r in results.items():
        if isinstance(r, str) and r.startswith("<unknown"):
            raise AnalysisError("for_all_primitives could not be simulated (%s): %s" % (case, r))
    r = results["single"]
    ok = isinstance(r, list) and len(r) == 1 and isinstance(r[0][0], Obj) and r[0][0].name == "expr" and freeze(r[0][1]) == freeze(Sym("value"))
    ctx.check(ok, "for_all_primitives hands a single symbol its value unchanged", detail="single-symbol shortcut", expected="callback(expr, rhs)", found=str(r)[:100], fi=f)
    r = results["concat"]
    ok = isinstance(r, list) and len(r) == len(prims)
    ctx.check(ok, "for_all_primitives calls back once per primitive", detail="per-primitive callback", expected="%d callbacks" % len(prims), found=str(len(r)) if isinstance(r, list) else r, fi=f)
    if ok:
        ctx.check([x[0] for x in r] == prims, "for_all_primitives walks the primitives of the expression in order", detail="iteration", expected="prim0, prim1, prim2", found=str([getattr(x[0], "name", x[0]) for x in r]), fi=f)
        off = 0
        widths, starts, shaped = [], [], []
        for (p_, v), n_ in zip(r, sizes):
            sl = v[2] if isinstance(v, tuple) and len(v) == 3 and v[0] == "typed" else None
            widths.append(len(sl) if isinstance(sl, list) else None)
            starts.append(sl[0] if isinstance(sl, list) and sl else None)
            shaped.append(isinstance(v, tuple) and len(v) == 3 and freeze(v[1]) == freeze(Sym("sparsity", p_.name)))
        ctx.check(all(isinstance(w, int) for w in widths), "primitive p receives a slice [offset : offset + size)", detail="slice form", expected="rhs[offset:offset+p.nnz()]", found=str(r)[:120], fi=f)
        ctx.check(widths == sizes, "the slice of primitive p has p.nnz() entries", detail="slice width", expected=sizes, found=widths, fi=f, sample={"width": str(widths)})
        ctx.check(all(shaped), "the slice is reshaped to p's own sparsity", detail="element layout of matrix-valued symbols", expected="rhs_type(p.sparsity(), slice)", found=str(shaped), fi=f)
        want_starts = ["r0", "r2", "r3"]
        ctx.check(starts == want_starts, "the offset starts at 0 and advances by the size of each primitive after it was served", detail="entries of a multi-entry symbol handed to its successor (values shifted)",
                  expected=want_starts, found=starts, fi=f, sample={"offset": str(starts)})
    ctx.check(results["invalid"] == "<raise>", "for_all_primitives: an expression that is not a concatenation of symbols is rejected", detail="set_value/set_initial/set_der on an arbitrary expression", expected="raise",
              found=str(results["invalid"])[:80], fi=f)


@rule("R09.12", min_instances=1, desc="the starting point follows a parameter change: guesses are stored in Opti as numbers, so a value written through to a live transcription must be followed by a re-application of the guess table")
def r09_12(ctx):
    """`set_initial(x, a*ocp.t)` (a a parameter), or any time-dependent guess with a horizon given by a parameter: the
    guess table is evaluated numerically (opti.debug.value(expr, opti.initial())) whenever it is applied; after
    Stage.set_value pushes a new parameter value into the live Opti, only a re-application can refresh those numbers."""
    P = ctx.prog
    f = P.own_method("Stage", "set_value")
    fns = [f] + list(__import__("rkverif.model", fromlist=["nested_functions"]).nested_functions(f).values())
    wt = [(g, c) for g in fns for c in walk_no_nested(g.node) if is_call_to(c, "set_value", "self._method")]
    re = [(g, c) for g in fns for c in walk_no_nested(g.node) if isinstance(c, ast.Call) and isinstance(c.func, ast.Attribute) and c.func.attr in ("apply_initial", "set_initial")
          and isinstance(c.func.value, ast.Attribute) and c.func.value.attr == "_method"]
    ctx.check(len(wt) >= 1, "Stage.set_value writes the value through to a live transcription", detail="write-through", expected="self._method.set_value(...)", found=str(len(wt)), fi=f)
    ctx.check(bool(re), "Stage.set_value", detail="guesses that depend on the parameter (or on a parametric horizon) keep the numbers computed with the old value: the starting point differs from the same OCP written with the new value",
              expected="after the write-through: self._method.apply_initial(self._augmented, self.master._method, self._initial)", found="no re-application of the guess table", fi=f,
              sample={"write_through": [ast.unparse(c)[:80] for _, c in wt]})
    # the re-application may be skipped only when no guess can depend on a parameter: every recorded guess is a number and the
    # horizon is not symbolic.  A guard through a helper is simulated: it must answer True for an expression guess and for a
    # symbolic T / t0.
    if re:
        from ..sim import Sim, fresh_obj
        from ..layout import Sym, LayoutUnknown, freeze
        sc = ctx.scope(f)
        guards = [t for _, c in re for t, p in sc.path_guards(c)]
        helpers = [x for t in guards for x in ast.walk(t) if isinstance(x, ast.Call) and isinstance(x.func, ast.Attribute) and P.resolve("Stage", x.func.attr) is not None
                   and x.func.attr not in ("is_transcribed",)]
        for h in helpers:
            g = P.resolve("Stage", h.func.attr)
            for label, ini, T in (("an expression guess", {freeze(Sym("x")): Sym("expr")}, 1.0), ("a symbolic horizon", {}, Sym("pT"))):
                st = fresh_obj("self", _initial=ini, _T=T, _t0=0.0, _stages=[])
                hooks = {"is_numeric": lambda s_, r, a, k, n: not isinstance(a[0], Sym), ".iter_stages": lambda s_, r, a, k, n: [r],
                         "isinstance": lambda s_, r, a, k, n: isinstance(a[0], Sym) if ast.unparse(n.args[1]) == "MX" else NotImplemented}
                try:
                    sim = Sim(P, hooks=hooks)
                    sim.self_class = "Stage"
                    out = sim.call(g, [st], {})
                except LayoutUnknown as e:
                    raise AnalysisError("Stage.%s could not be simulated: %s" % (g.name, e))
                ctx.check(out is True, "Stage.%s answers True for %s" % (g.name, label), detail="the guard of the re-application skips a case in which guesses depend on parameter values",
                          expected="True", found=str(out), fi=g)


@rule("R09.13", min_instances=2, desc="declaring a list of symbols is declaring each of them: the list form of register_variable / register_parameter forwards every declaration argument (grid, order, scale, include_last, domain, meta)")
def r09_13(ctx):
    """register_parameter([p, q], grid='control') must create per-interval parameters like two single calls do; a
    dropped argument silently falls back to its default (grid='' = one global value for the whole horizon)."""
    P = ctx.prog
    for fname in ("register_variable", "register_parameter"):
        f = P.own_method("Stage", fname)
        rec = [c for c in walk_no_nested(f.node) if is_call_to(c, fname, "self")]
        ok = len(rec) == 1
        missing = []
        if ok:
            c = rec[0]
            passed = {k.arg: ast.unparse(k.value) for k in c.keywords if k.arg}
            # positional arguments after the element count too
            for pname, a in zip(f.params[2:], c.args[1:]):
                passed[pname] = ast.unparse(a)
            for pname in f.params[2:]:
                if passed.get(pname) != pname:
                    missing.append(pname)
            ok = not missing
        ctx.check(ok, "Stage.%s: the list form forwards every declaration argument" % fname, detail="arguments dropped for the members of a list (they silently get the defaults: e.g. grid='' instead of 'control')",
                  expected="self.%s(e, %s)" % (fname, ", ".join("%s=%s" % (p_, p_) for p_ in f.params[2:])), found="not forwarded: %s" % ", ".join(missing) if rec else "no recursive call", fi=f,
                  node=(rec[0] if rec else None), sample={"fn": fname, "missing": missing})


@rule("R09.14", min_instances=1, desc="a parameter keeps the value it was given until the next set_value: the specification stores its own copy of the value, not the caller's (mutable) object")
def r09_14(ctx):
    """`buf = np.array([1.]); ocp.set_value(p, buf); buf[0] = 2` must not change the OCP: the recorded value is read again at
    every (re-)transcription, so an alias of the caller's array makes the NLP depend on later mutations of that array."""
    from ..model import nested_functions
    P = ctx.prog
    f = P.own_method("Stage", "set_value")
    fns = [f] + list(nested_functions(f).values())
    stores = [(g, st) for g in fns for st in walk_no_nested(g.node) if isinstance(st, ast.Assign) and isinstance(st.targets[0], ast.Subscript) and ast.unparse(st.targets[0].value) == "self._param_vals"]
    ctx.check(len(stores) >= 1, "Stage.set_value records the value", detail="record", expected="self._param_vals[parameter] = <copy of value>", found=str(len(stores)), fi=f)
    COPIERS = ("DM", "deepcopy", "copy.deepcopy", "np.array", "numpy.array", "copy", "copy.copy", "np.copy")
    for g, st in stores:
        v = st.value
        sc = ctx.scope(g)
        if isinstance(v, ast.Name):
            v = sc.reaching(v.id, v) or v
        copied = isinstance(v, ast.Call) and ast.unparse(v.func) in COPIERS
        ctx.check(copied, "Stage.set_value stores a private copy of the value", detail="the caller's object is stored by reference: mutating it afterwards silently changes the parameter value used by the next (re-)transcription",
                  expected="self._param_vals[parameter] = copy.deepcopy(value) (or DM(value))", found=ast.unparse(st), fi=g, node=st, sample={"store": ast.unparse(st)})


@rule("R09.15", min_instances=2, desc="a parameter value handed to Opti together with an EXPRESSION target (the per-interval parameters stacked with hcat) is made dense first: Opti pairs the k-th stored nonzero of a sparse value with the k-th entry of the expression")
def r09_15(ctx):
    """D89: set_value(r, vertcat(xref, DM(1, N+1))) after transcription gave [[1 3 5 9 9],[2 4 9 9 9]] (old values 9) instead of [[1..5],[0..0]]."""
    P = ctx.prog
    n = 0
    for name in ("set_value", "set_parameter"):
        f = P.own_method("SamplingMethod", name)
        for c in walk_no_nested(f.node):
            # a target that is not one plain Opti parameter (self.P[i], a signal's coefficient matrix) may be a stacked expression
            if isinstance(c, ast.Call) and isinstance(c.func, ast.Attribute) and c.func.attr == "set_value" and len(c.args) == 2 and ast.unparse(c.func.value).endswith("opti") \
                    and not (isinstance(c.args[0], ast.Subscript) and ast.unparse(c.args[0].value) == "self.P") and not ast.unparse(c.args[0]).endswith(".coeff"):
                n += 1
                v = c.args[1]
                dense = isinstance(v, ast.Call) and ast.unparse(v.func).split(".")[-1] in ("densify", "full")
                ctx.check(dense, "SamplingMethod.%s: the value for %s is made dense" % (name, ast.unparse(c.args[0])[:40]), detail="a value with structural zeros is packed into the first entries of the stacked parameters and the others keep their old values",
                          expected="opti.set_value(<stacked parameters>, densify(DM(value)))", found=ast.unparse(v)[:60], fi=f, node=c)
    if n < 2:
        raise AnalysisError("R09.15: only %d set_value calls with a (possibly) stacked target found in SamplingMethod.set_value / set_parameter" % n)
