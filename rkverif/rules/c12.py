"""C12 -- stages compose without interference and clones equal their template.

Decided: the four tree recursers visit the stage itself and then every sub-stage with the same
arguments (R12.1); every attribute initialised by Stage.__init__ is handled by clone() -- copied
(never aliased) when it is per-stage mutable state -- or listed in a frozen exemption table (R12.2);
clone renews every placeholder and substitutes them in constraints, objective and guesses with
matching offsets (R12.3); one Opti per tree, created by the master only (R12.4); clone() writes
nothing to the template, stage() registers and invalidates (R12.5); deep copies link
original/augmented and share the method; Stage.method() stores a private copy (R12.6).
Not decided: disjoint-union equality of the NLPs.
"""
import ast

from ..core import rule
from ..model import AnalysisError
from ..norm import Norm, expected
from ..poly import Poly
from ..paths import walk_no_nested, must_on_all_paths
from ..effects import is_call_to, writes_in
from ..loops import elementwise_text
from .c13 import _is_invalidate

LEVEL = "other"

RECURSERS = {
    "_transcribe_recurse": ("transcribe", True),
    "_untranscribe_recurse": ("untranscribe", True),
    "_placeholders_transcribe_recurse": ("transcribe_placeholders", False),
    "_placeholders_untranscribe_recurse": ("untranscribe_placeholders", False),
}


@rule("R12.1", min_instances=12, desc="tree recursers: the stage's own method is invoked, then every element of self._stages recursively with the same arguments; main_* only for the master")
def r12_1(ctx):
    P = ctx.prog
    for name, (meth, has_main) in RECURSERS.items():
        f = P.own_method("Stage", name)
        sc = ctx.scope(f)
        own = [c for c in walk_no_nested(f.node) if is_call_to(c, meth, "self._method")]
        ok = len(own) == 1 and all(ast.unparse(t) == "self._method is not None" and p for t, p in sc.guards(own[0])) and not sc.enclosing_loops(own[0])
        ctx.check(ok, "Stage.%s invokes the stage's own method" % name, detail="stage skipped", expected="self._method.%s(...)" % meth, found=str(len(own)), fi=f)
        if own:
            passes_self = any(ast.unparse(a) == "self" for a in own[0].args)
            ctx.check(passes_self, "Stage.%s passes the stage itself" % name, detail="method invoked on another stage", expected="self among the arguments", found=ast.unparse(own[0]), fi=f, node=own[0])
        loops = [l for l in f.node.body if isinstance(l, ast.For) and ast.unparse(l.iter) == "self._stages"]
        ok = len(loops) == 1
        if ok:
            l = loops[0]
            s = l.target.id if isinstance(l.target, ast.Name) else None
            rec = [c for c in ast.walk(l) if is_call_to(c, name, s)]
            ok = len(rec) == 1 and len(l.body) == 1
            if ok:
                # same arguments forwarded
                params = f.params[1:]
                fw = [ast.unparse(a) for a in rec[0].args] + ["%s=%s" % (k.arg, ast.unparse(k.value)) if k.arg else "**" + ast.unparse(k.value) for k in rec[0].keywords]
                want_names = set(params) | ({f.kwarg} if f.kwarg else set())
                used = {x.id for a in list(rec[0].args) + [k.value for k in rec[0].keywords] for x in ast.walk(a) if isinstance(x, ast.Name)}
                ok = want_names <= used
        ctx.check(ok, "Stage.%s recurses into every sub-stage with the same arguments" % name, detail="sub-stages not (fully) visited", expected="for s in self._stages: s.%s(<same arguments>)" % name,
                  found="; ".join(ast.unparse(l).split("\n")[0] for l in loops), fi=f)
        if has_main:
            mn = [c for c in walk_no_nested(f.node) if isinstance(c, ast.Call) and isinstance(c.func, ast.Attribute) and c.func.attr == "main_" + meth]
            ok = len(mn) == 1 and any(ast.unparse(t) == "self is self.master" and p for t, p in sc.guards(mn[0]))
            ctx.check(ok, "Stage.%s runs main_%s for the master only" % (name, meth), detail="several Opti instances in one tree", expected="if self is self.master: self._method.main_%s(...)" % meth, found=str(len(mn)), fi=f)
            if mn and own:
                ctx.check(sc.order[mn[0]] < sc.order[own[0]], "Stage.%s: main_%s precedes the stage's own %s" % (name, meth, meth), detail="order", expected="main first", found="", fi=f)


# how clone() must treat each attribute initialised in Stage.__init__
COPY = "copy"      # per-stage mutable state: must be a fresh container / object
ALIAS = "alias"    # may be shared, with the reason
CLONE_TABLE = {
    "states": COPY, "controls": COPY, "algebraics": COPY, "parameters": COPY, "variables": COPY,
    "_offsets": COPY, "_param_vals": COPY, "_state_der": COPY, "_scale_der": COPY, "_alg": COPY, "_state_next": COPY,
    "_constraints": COPY, "_initial": COPY, "_objective": COPY, "_method": COPY, "_placeholders": COPY,
    "_T": COPY, "_t0": COPY,
    # per-symbol tables: the clone reuses the template's symbols, but the TABLES are per-stage mutable state (a symbol declared
    # on one clone must not become known to the template and its siblings)
    "_meta": COPY, "_scale": COPY, "_catalog": COPY,
    "_var_original": (ALIAS, "link to the original tree (None for declared stages)"),
    "_T_scale": (ALIAS, "immutable number"),
}
# initialised afresh by Stage.__init__ of the new stage (constructor arguments or new placeholders)
CTOR_FRESH = {"_master", "parent", "_t", "_public_T", "_public_t0", "_tf", "_public_DT", "_public_DT_control", "_var_augmented"}
# not carried over by clone(): recorded limitations, each fails loudly or is irrelevant for templates
CLONE_EXEMPT = {
    "qstates": "quadrature states only exist on the transcribed copy (created by integral placeholders in phase 1); clone() asserts it runs on an original",
    "_signals": "B-spline signals of a template are not cloned: using one raises KeyError at transcription (loud)",
    "_inf_inert": "inf_inert symbols of a template are not cloned: an unsubstituted symbol fails loudly in Opti",
    "_inf_der": "inf_der symbols of a template are not cloned: an unsubstituted symbol fails loudly in Opti",
    "_stages": "a template with sub-stages is rejected by clone() (obligation 'clone handles the template's sub-stages' below)",
}


def classify_value(v):
    if isinstance(v, ast.Call):
        fn = ast.unparse(v.func)
        if fn in ("copy", "deepcopy", "copy.copy", "copy.deepcopy", "HashOrderedDict", "defaultdict", "list", "HashDict", "HashList"):
            return COPY
        return COPY
    if isinstance(v, ast.Subscript):
        return COPY  # element of the substituted result list: a new expression
    if isinstance(v, ast.Attribute) and ast.unparse(v.value) == "self":
        return ALIAS
    return COPY


@rule("R12.2", min_instances=35, desc="clone completeness and independence: every attribute of Stage.__init__ is copied (never aliased when it is per-stage mutable state), re-created by the constructor, or exempt with a reason")
def r12_2(ctx):
    P = ctx.prog
    init = P.own_method("Stage", "__init__")
    attrs = sorted({w.attr for w in writes_in(init.node)})
    f = P.own_method("Stage", "clone")
    ws = {}
    for w in writes_in(f.node, recv="ret"):
        ws.setdefault(w.attr, []).append(w)
    for a in attrs:
        if a in CTOR_FRESH:
            ctx.ok("clone: %s is created afresh by the constructor" % a, fi=f)
            continue
        if a in CLONE_EXEMPT:
            ctx.check(a not in ws or True, "clone: %s exempt" % a, fi=f, sample={"exempt": CLONE_EXEMPT[a]})
            continue
        if a not in CLONE_TABLE:
            ctx.fail("clone: new attribute %s" % a, detail="attribute of Stage.__init__ not known to the clone table", expected="handled by clone() and listed", found="unlisted", fi=init)
            continue
        want = CLONE_TABLE[a]
        handled = a in ws
        ctx.check(handled, "clone carries over %s" % a, detail="attribute lost in the clone", expected="ret.%s = ..." % a, found="not assigned", fi=f)
        if not handled:
            continue
        kinds = set()
        for w in ws[a]:
            if w.kind == "assign":
                kinds.add(classify_value(w.node.value))
            else:
                kinds.add(COPY)
        if want == COPY:
            ctx.check(ALIAS not in kinds, "clone copies %s" % a, detail="clone shares mutable state with its template (and its siblings)",
                      expected="a copy (copy()/deepcopy()/new container)", found="; ".join(ast.unparse(w.node) for w in ws[a])[:100], fi=f, node=ws[a][0].node,
                      sample={"attr": a, "how": "; ".join(ast.unparse(w.node) for w in ws[a])[:80]})
        else:
            ctx.ok("clone shares %s" % a, fi=f, sample={"attr": a, "why": want[1]})
    # horizon overrides
    for a, kw in (("_T", "T"), ("_t0", "t0")):
        w = [x for x in ws.get(a, []) if x.kind == "assign"]
        sc = ctx.scope(f)
        ok = len(w) == 1 and [(ast.unparse(t), p) for t, p in sc.guards(w[0].node)] == [("'%s' not in kwargs" % kw, True)]
        ctx.check(ok, "clone keeps the template's %s unless overridden" % kw, detail="override of %s ignored or template value lost" % kw, expected="if '%s' not in kwargs: ret.%s = copy(self.%s)" % (kw, a, a), found="", fi=f)
    # sub-stages of a template: cloned recursively, or the template is rejected -- never dropped silently
    handles_stages = "_stages" in ws or any(isinstance(n_, (ast.If, ast.Assert)) and "self._stages" in ast.unparse(n_.test) and (isinstance(n_, ast.Assert) or any(isinstance(x, ast.Raise) for x in n_.body))
                                             for n_ in walk_no_nested(f.node))
    ctx.check(handles_stages, "clone handles the template's sub-stages", detail="a template that owns sub-stages is cloned without them (half of the problem silently missing)",
              expected="clone the sub-stages recursively, or raise when self._stages is not empty", found="self._stages never read", fi=f)
    # shifted operands (next/prev/offset) keep their own table of inner expressions: those need the clone's placeholders too
    offs = [w for w in ws.get("_offsets", [])]
    sub_off = any(is_call_to(x, "substitute") and [ast.unparse(a) for a in x.args[1:]] == ["subst_from", "subst_to"] and "_offsets" in ast.unparse(ctx.scope(f).stmt_of(x)) + " ".join(ast.unparse(l[1]) for l in ctx.scope(f).enclosing_loops(x))
                  for x in walk_no_nested(f.node))
    ctx.check(bool(offs) and sub_off, "clone renews the placeholders inside next/prev/offset operands", detail="next(x*T) of a clone with an overridden T keeps the template's T (and t, t0, nested placeholders)",
              expected="the expressions stored in _offsets pass through substitute(.., subst_from, subst_to)", found="; ".join(ast.unparse(w.node)[:70] for w in offs), fi=f)
    ctor = [c for c in walk_no_nested(f.node) if isinstance(c, ast.Call) and ast.unparse(c.func) == "Stage"]
    ok = len(ctor) == 1 and ast.unparse(ctor[0].args[0]) == f.params[1] and any(k.arg is None for k in ctor[0].keywords)
    ctx.check(ok, "clone constructs the new stage under the given parent with the overrides", detail="constructor call", expected="Stage(parent, **kwargs)", found="; ".join(ast.unparse(c) for c in ctor), fi=f)


@rule("R12.3", min_instances=7, desc="clone renews placeholders (T, t0, t mapped to the clone's own; others fresh) and substitutes them in constraints, objective and guess keys with matching offsets")
def r12_3(ctx):
    P = ctx.prog
    f = P.own_method("Stage", "clone")
    sc = ctx.scope(f)
    apps = [c for c in walk_no_nested(f.node) if is_call_to(c, "append", "subst_to")]
    table = {}
    def flat(v, gs):
        # canonical form of an if/elif chain of appends is one append of a nested conditional expression
        if isinstance(v, ast.IfExp):
            flat(v.body, gs + [(ast.unparse(v.test), True)])
            flat(v.orelse, gs + [(ast.unparse(v.test), False)])
        else:
            pos = [g for g, p in gs if p]
            table[pos[-1] if pos else "else"] = ast.unparse(v)
    for a in apps:
        flat(a.args[0], [(ast.unparse(t), p) for t, p in sc.guards(a)])
    loopv = None
    for l in walk_no_nested(f.node):
        if isinstance(l, ast.For) and ast.unparse(l.iter) == "self._placeholders.keys()" and any(a in list(ast.walk(l)) for a in apps):
            loopv = l.target.id
    want = {"is_equal(%s, self.T)" % loopv: "ret.T", "is_equal(%s, self.t0)" % loopv: "ret.t0", "is_equal(%s, self.t)" % loopv: "ret.t",
            "else": "MX.sym(%s.name(), %s.sparsity())" % (loopv, loopv)}
    ctx.check(table == want, "clone maps T, t0, t to the clone's own placeholders and renews the others", detail="clone keeps referring to the template's placeholders (stages interfere)",
              expected=want, found=table, fi=f, sample={"map": table})
    sf = [d for d in sc.defs.get("subst_from", []) if d.kind == "assign"]
    ok = len(sf) == 1 and ast.unparse(sf[0].value) == "list(self._placeholders.keys())"
    ctx.check(ok, "clone substitutes every placeholder of the template", detail="substitution source", expected="subst_from = list(self._placeholders.keys())", found=ast.unparse(sf[0].value) if sf else None, fi=f)
    reg = [st for st in walk_no_nested(f.node) if isinstance(st, ast.Assign) and isinstance(st.targets[0], ast.Subscript) and ast.unparse(st.targets[0].value) == "ret._placeholders"]
    ew = elementwise_text(sc, reg[0]) if len(reg) == 1 else None
    n12 = ctx.norm(f)
    ok = ew is not None and ew[0].startswith("ret._placeholders[subst_to[@]] = ") and set(ew[1]) & {"subst_from", "subst_to"}
    ctx.check(ok, "clone registers every renewed placeholder with the template's definition", detail="placeholder registration", expected="for old,new in zip(subst_from, subst_to): ret._placeholders[new] = <definition of old>", found=ew[0] if ew else "", fi=f)
    if ok:
        # the definition is (species, expression, args, kwargs): the expression may contain the template's own t / T / t0 and other
        # placeholders (sum((x - at_tf(x))**2)); they must be mapped to the clone's, like constraints and objective are
        v = reg[0].value
        leaf = v
        if isinstance(leaf, ast.Name):
            leaf = sc.reaching(leaf.id, leaf) or leaf
        substituted = False
        for x in ast.walk(leaf) if isinstance(leaf, ast.AST) else []:
            if is_call_to(x, "substitute") and len(x.args) == 3 and [ast.unparse(a) for a in x.args[1:]] == ["subst_from", "subst_to"]:
                substituted = True
        # the expression may also be renewed in a statement before the registration, inside the same loop
        lp = sc.enclosing_loops(reg[0])[-1][2]
        for x in ast.walk(lp):
            if is_call_to(x, "substitute") and len(x.args) == 3 and [ast.unparse(a) for a in x.args[1:]] == ["subst_from", "subst_to"]:
                substituted = True
        ctx.check(substituted, "clone renews the placeholders nested inside a placeholder's own expression", detail="a clone's sum/integral/at_tf expression keeps referring to the template's placeholders (its at_tf(x), t, T): stages interfere silently",
                  expected="expr = substitute([expr], subst_from, subst_to)[0] before ret._placeholders[new] = (species, expr, args, kwargs)", found=ast.unparse(reg[0]), fi=f, node=reg[0],
                  sample={"registration": ast.unparse(reg[0])})
    subs = [c for c in walk_no_nested(f.node) if is_call_to(c, "substitute") and len(c.args) == 3 and not sc.enclosing_loops(c)]
    ok = len(subs) == 1 and [ast.unparse(a) for a in subs[0].args] == ["orig", "subst_from", "subst_to"]
    ctx.check(ok, "clone substitutes in one pass over constraints + objective + guess keys", detail="substitution call", expected="res = substitute(orig, subst_from, subst_to)", found="; ".join(ast.unparse(c) for c in subs), fi=f)
    # packing / unpacking offsets
    n = ctx.norm(f)
    obj = [st for st in walk_no_nested(f.node) if isinstance(st, ast.Assign) and ast.unparse(st.targets[0]) == "ret._objective"]
    ok = len(obj) == 1 and ast.unparse(obj[0].value) == "res[n_constr]"
    # order of events on the packed list: constraints ..., n_constr = len(orig), objective, guess keys
    events = []
    for st in walk_no_nested(f.node):
        if isinstance(st, ast.Assign) and ast.unparse(st.targets[0]) == "orig" and "_constraints" in ast.unparse(st.value):
            events.append((sc.order[st], "constraints"))
        elif isinstance(st, ast.Assign) and ast.unparse(st.targets[0]) == "n_constr" and ast.unparse(st.value) == "len(orig)":
            events.append((sc.order[st], "len"))
        elif isinstance(st, ast.Call) and isinstance(st.func, ast.Attribute) and ast.unparse(st.func.value) == "orig" and st.func.attr in ("extend", "append") and st.args:
            a0 = st.args[0]
            if is_call_to(a0, "list") and len(a0.args) == 1:
                a0 = a0.args[0]
            t = ast.unparse(a0)
            events.append((sc.order[st], "constraints" if "_constraints" in t else "objective" if t == "self._objective" else "initial" if t == "self._initial.keys()" else "other:" + t))
    seq = [e for _, e in sorted(events)]
    dedup = [e for i, e in enumerate(seq) if i == 0 or e != seq[i - 1]]
    ok = ok and dedup == ["constraints", "len", "objective", "initial"]
    ctx.check(ok, "clone unpacks the objective at the offset it was packed", detail="objective / constraints / guesses mixed up in the clone", expected="orig = constraints; n = len(orig); orig += [objective] + initial keys; objective = res[n]", found=str(dedup), fi=f)
    ini = [st for st in walk_no_nested(f.node) if isinstance(st, ast.Assign) and ast.unparse(st.targets[0]) == "ret._initial"]
    ok = len(ini) == 1 and Norm(None).key(ini[0].value) == Norm(None).key(ast.parse("HashOrderedDict(zip(res[n_constr+1:], self._initial.values()))", mode="eval").body)
    ctx.check(ok, "clone pairs the substituted guess keys with the template's guess values", detail="guess table of the clone", expected="HashOrderedDict(zip(res[n_constr+1:], self._initial.values()))", found=ast.unparse(ini[0].value) if ini else None, fi=f)
    con = [st for st in walk_no_nested(f.node) if isinstance(st, ast.Assign) and ast.unparse(st.targets[0]) == "ret._constraints[k]"]
    ok = len(con) == 1 and "zip(r," in ast.unparse(con[0].value)
    adv = [st for st in walk_no_nested(f.node) if isinstance(st, ast.Assign) and ast.unparse(st.targets[0]) == "r" and ast.unparse(st.value) == "r[len(v):]"]
    ok = ok and len(adv) == 1 and sc.order[adv[0]] > sc.order[con[0]]
    ctx.check(ok, "clone distributes the substituted constraints back over their grids in packing order", detail="constraints of one grid attached to another", expected="for k in grids: ret._constraints[k] = zip(r, metas, args); r = r[len(v):]", found="", fi=f)


@rule("R12.4", min_instances=4, desc="one Opti per tree: sub-stages use the master's Opti; only the master creates it")
def r12_4(ctx):
    P = ctx.prog
    f = P.own_method("SamplingMethod", "transcribe")
    sc = ctx.scope(f)
    d = [x for x in sc.defs.get("opti", []) if x.kind == "assign"]
    ok = len(d) == 1 and ast.unparse(d[0].value) == "stage.master._method.opti"
    ctx.check(ok, "SamplingMethod.transcribe uses the master's Opti", detail="stage transcribed into its own Opti", expected="opti = stage.master._method.opti", found=ast.unparse(d[0].value) if d else None, fi=f)
    g = P.own_method("DirectMethod", "main_transcribe")
    news = [c for c in walk_no_nested(g.node) if isinstance(c, ast.Call) and ast.unparse(c.func) == "OptiWrapper"]
    ctx.check(len(news) == 1, "DirectMethod.main_transcribe creates the tree's single Opti", detail="Opti creation", expected="self.opti = OptiWrapper(stage)", found=str(len(news)), fi=g)
    others = []
    for cname in P.subclasses("DirectMethod"):
        for h in P.cls(cname).methods.values():
            if h.qualname == "DirectMethod.main_transcribe":
                continue
            for c in walk_no_nested(h.node):
                if isinstance(c, ast.Call) and ast.unparse(c.func) in ("OptiWrapper", "Opti", "ca.Opti", "casadi.Opti"):
                    others.append(h.qualname)
    ctx.check(not others, "no other method creates an Opti for the NLP", detail="second Opti in the tree", expected="none", found=str(others), fi=g)
    for name in ("eval_at_control", "eval_at_integrator", "eval_at_integrator_root", "eval"):
        h = P.own_method("SamplingMethod", name)
        ok = any(is_call_to(c, "eval_top") and ast.unparse(c.func.value) == "stage.master._method" and c.args and ast.unparse(c.args[0]) == "stage.master" for c in walk_no_nested(h.node))
        ctx.check(ok, "%s resolves the parent's global variables/parameters through the master" % name, detail="parent-level symbols left unsubstituted or resolved on the wrong stage",
                  expected="stage.master._method.eval_top(stage.master, ...)", found="", fi=h)


@rule("R12.5", min_instances=4, desc="clone() writes nothing to the template; stage() clones with the overrides, registers the new stage and invalidates")
def r12_5(ctx):
    P = ctx.prog
    f = P.own_method("Stage", "clone")
    ws = writes_in(f.node, recv="self")
    ctx.check(not ws, "Stage.clone leaves the template unchanged", detail="template modified by cloning", expected="no write to self.*", found="; ".join(w.attr for w in ws), fi=f, node=(ws[0].node if ws else None))
    muts = [c for c in walk_no_nested(f.node) if isinstance(c, ast.Call) and isinstance(c.func, ast.Attribute) and isinstance(c.func.value, ast.Attribute)
            and ast.unparse(c.func.value.value) == "self" and c.func.attr in ("append", "extend", "update", "pop", "clear", "move_to_end", "__setitem__")]
    ctx.check(not muts, "Stage.clone does not mutate the template's containers", detail="template container mutated", expected="none", found="; ".join(ast.unparse(m) for m in muts), fi=f)
    g = P.own_method("Stage", "stage")
    sc = ctx.scope(g)
    cl = [c for c in walk_no_nested(g.node) if is_call_to(c, "clone", g.params[1])]
    ok = len(cl) == 1 and ast.unparse(cl[0].args[0]) == "self" and any(k.arg is None and ast.unparse(k.value) == g.kwarg for k in cl[0].keywords)
    ctx.check(ok, "Stage.stage clones the template under this stage with the overrides", detail="template call", expected="template.clone(self, ..., **kwargs)", found="; ".join(ast.unparse(c) for c in cl), fi=g)
    apps = [c for c in walk_no_nested(g.node) if is_call_to(c, "append", "self._stages")]
    ok = len(apps) == 1 and not sc.guards(apps[0])
    ok2, _ = must_on_all_paths(g.node.body, _is_invalidate)
    ctx.check(ok and ok2, "Stage.stage registers the new stage and invalidates", detail="new stage not part of the next transcription", expected="self._stages.append(s); self._set_transcribed(False)", found="", fi=g)


@rule("R12.6", min_instances=5, desc="deep copies link original and copy and share the method object; Stage.method stores a private deep copy; solutions address the copy of the queried stage")
def r12_6(ctx):
    P = ctx.prog
    f = P.own_method("Stage", "__deepcopy__")
    asg = {ast.unparse(st.targets[0]): ast.unparse(st.value) for st in walk_no_nested(f.node) if isinstance(st, ast.Assign)}
    cps = [st.targets[0].id for st in walk_no_nested(f.node) if isinstance(st, ast.Assign) and isinstance(st.targets[0], ast.Name) and isinstance(st.value, ast.Call)
           and ast.unparse(st.value.func) in ("copy.deepcopy", "deepcopy") and st.value.args and ast.unparse(st.value.args[0]) == "self"]
    cpn = cps[0] if cps else "cp"
    for k, v in ((cpn + "._var_original", "self"), ("self._var_augmented", cpn), (cpn + "._method", "self._method")):
        ctx.check(asg.get(k) == v, "Stage.__deepcopy__: %s = %s" % (k, v), detail="original/copy link", expected=v, found=asg.get(k), fi=f)
    g = P.own_method("Stage", "method")
    a = [st for st in walk_no_nested(g.node) if isinstance(st, ast.Assign) and ast.unparse(st.targets[0]) == "self._method"]
    ok = len(a) == 1 and isinstance(a[0].value, ast.Call) and ast.unparse(a[0].value.func) in ("deepcopy", "copy.deepcopy") and ast.unparse(a[0].value.args[0]) == g.params[1]
    ctx.check(ok, "Stage.method stores a private deep copy of the method", detail="stages given the same method object share one discretisation", expected="self._method = deepcopy(method)",
              found="; ".join(ast.unparse(x) for x in a), fi=g)
    s = P.own_method("OcpSolution", "__init__")
    asg = {ast.unparse(st.targets[0]): ast.unparse(st.value) for st in walk_no_nested(s.node) if isinstance(st, ast.Assign)}
    ctx.check(asg.get("self.stage") == "%s._augmented" % s.params[2], "OcpSolution addresses the transcribed copy of the queried stage", detail="solution read on another stage", expected="stage._augmented", found=asg.get("self.stage"), fi=s)
    c = P.own_method("OcpSolution", "__call__")
    rets = [ast.unparse(r.value) for r in walk_no_nested(c.node) if isinstance(r, ast.Return)]
    ctx.check(rets == ["OcpSolution(self.sol, stage=%s)" % c.params[1]], "sol(stage) re-targets the same numerical solution at that stage", detail="sol(stage)", expected="OcpSolution(self.sol, stage=stage)", found=rets, fi=c)


@rule("R12.7", min_instances=8, desc="a coupling constraint referring to another stage's boundary value is placed exactly once (before/after complementarity, shared with C04)")
def r12_7(ctx):
    from .c04 import r04_6
    r04_6(ctx)


@rule("R12.8", min_instances=4, desc="an edit of a sub-stage after a solve invalidates the OCP's cached transcription (the flag of the master is the one that is read; shared with C13)")
def r12_8(ctx):
    from .c13 import r13_7
    r13_7(ctx)


@rule("R12.9", min_instances=2, desc="parent-level symbols in coupling constraints / objective: DirectMethod.eval_top substitutes the stage's global variables by self.V and its global parameters by self.P (same order on both sides of the substitution)")
def r12_9(ctx):
    P = ctx.prog
    f = P.own_method("DirectMethod", "eval_top")
    calls = [c for c in walk_no_nested(f.node) if isinstance(c, ast.Call) and isinstance(c.func, ast.Name) and c.func.id == "substitute" and len(c.args) == 3]
    if len(calls) != 1:
        raise AnalysisError("DirectMethod.eval_top: expected one substitute(expr, from, to) call, found %d" % len(calls))
    c = calls[0]

    def flat_add(e):
        if isinstance(e, ast.BinOp) and isinstance(e.op, ast.Add):
            return flat_add(e.left) + flat_add(e.right)
        return [e]

    def kinds_from(e):
        # veccat(*(A+B)) / vvcat(A+B) / vertcat(veccat(*A), veccat(*B))
        if isinstance(e, ast.Call) and isinstance(e.func, ast.Name) and e.func.id in ("veccat", "vvcat", "vertcat", "vcat"):
            out = []
            for a in e.args:
                a = a.value if isinstance(a, ast.Starred) else a
                for x in flat_add(a):
                    if isinstance(x, ast.Call):
                        out += kinds_from(x)
                    else:
                        t = ast.unparse(x).replace('"', "'")
                        out.append({"stage.variables['']": "V", "stage.parameters['']": "P", "self.V": "V", "self.P": "P"}.get(t, "?" + t))
            return out
        t = ast.unparse(e).replace('"', "'")
        return [{"self.V": "V", "self.P": "P"}.get(t, "?" + t)]
    src, dst = kinds_from(c.args[1]), kinds_from(c.args[2])
    ok = src == dst and sorted(src) == ["P", "V"]
    ctx.check(ok, "DirectMethod.eval_top pairs global variables with self.V and global parameters with self.P", detail="a parent-level variable and parameter are substituted crosswise in coupling constraints and objective",
              expected="substitute(expr, [variables[''], parameters['']], [self.V, self.P]) in the same order", found="from %s to %s" % (src, dst), fi=f, node=c, sample={"from": src, "to": dst})
    ctx.check(ast.unparse(c.args[0]) in ("MX(expr)", "expr"), "DirectMethod.eval_top substitutes in the expression it was given", detail="eval_top", expected="substitute(MX(expr), ...)", found=ast.unparse(c.args[0]), fi=f)
