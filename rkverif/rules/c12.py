"""C12 -- stages compose without interference and clones equal their template.

Decided: the four tree recursers visit the stage itself and then every sub-stage with the same
arguments (R12.1); every attribute initialised by Stage.__init__ is handled by clone() -- copied
(never aliased) when it is per-stage mutable state -- or listed in a frozen exemption table (R12.2);
clone renews every placeholder and substitutes them in constraints, objective and guesses with
matching offsets (R12.3); one Opti per tree, created by the master only (R12.4); clone() writes
nothing to the template, stage() registers and invalidates (R12.5); deep copies link
original/augmented and share the method; Stage.method() stores a private copy (R12.6).
Not decided: disjoint-union equality of the NLPs.
"""
import ast

from ..core import rule
from ..model import AnalysisError
from ..norm import Norm, expected
from ..poly import Poly
from ..paths import walk_no_nested, must_on_all_paths, canon_guard
from ..effects import is_call_to, writes_in
from ..loops import elementwise_text
from .c13 import _is_invalidate

LEVEL = "other"

RECURSERS = {
    "_transcribe_recurse": ("transcribe", True),
    "_untranscribe_recurse": ("untranscribe", True),
    "_placeholders_transcribe_recurse": ("transcribe_placeholders", False),
    "_placeholders_untranscribe_recurse": ("untranscribe_placeholders", False),
}


@rule("R12.1", min_instances=12, desc="tree recursers: the stage's own method is invoked, then every element of self._stages recursively with the same arguments; main_* only for the master")
def r12_1(ctx):
    P = ctx.prog
    for name, (meth, has_main) in RECURSERS.items():
        f = P.own_method("Stage", name)
        sc = ctx.scope(f)
        own = [c for c in walk_no_nested(f.node) if is_call_to(c, meth, "self._method")]
        ok = len(own) == 1 and all(canon_guard(t, p) == canon_guard("self._method is not None", True) for t, p in sc.guards(own[0])) and not sc.enclosing_loops(own[0])
        ctx.check(ok, "Stage.%s invokes the stage's own method" % name, detail="stage skipped", expected="self._method.%s(...)" % meth, found=str(len(own)), fi=f)
        if own:
            passes_self = any(ast.unparse(a) == "self" for a in own[0].args)
            ctx.check(passes_self, "Stage.%s passes the stage itself" % name, detail="method invoked on another stage", expected="self among the arguments", found=ast.unparse(own[0]), fi=f, node=own[0])
        loops = [l for l in f.node.body if isinstance(l, ast.For) and ast.unparse(l.iter) == "self._stages"]
        ok = len(loops) == 1
        if ok:
            l = loops[0]
            s = l.target.id if isinstance(l.target, ast.Name) else None
            rec = [c for c in ast.walk(l) if is_call_to(c, name, s)]
            ok = len(rec) == 1 and len(l.body) == 1
            if ok:
                # same arguments forwarded
                params = f.params[1:]
                fw = [ast.unparse(a) for a in rec[0].args] + ["%s=%s" % (k.arg, ast.unparse(k.value)) if k.arg else "**" + ast.unparse(k.value) for k in rec[0].keywords]
                want_names = set(params) | ({f.kwarg} if f.kwarg else set())
                used = {x.id for a in list(rec[0].args) + [k.value for k in rec[0].keywords] for x in ast.walk(a) if isinstance(x, ast.Name)}
                ok = want_names <= used
        ctx.check(ok, "Stage.%s recurses into every sub-stage with the same arguments" % name, detail="sub-stages not (fully) visited", expected="for s in self._stages: s.%s(<same arguments>)" % name,
                  found="; ".join(ast.unparse(l).split("\n")[0] for l in loops), fi=f)
        if has_main:
            mn = [c for c in walk_no_nested(f.node) if isinstance(c, ast.Call) and isinstance(c.func, ast.Attribute) and c.func.attr == "main_" + meth]
            ok = len(mn) == 1 and any(ast.unparse(t) == "self is self.master" and p for t, p in sc.guards(mn[0]))
            ctx.check(ok, "Stage.%s runs main_%s for the master only" % (name, meth), detail="several Opti instances in one tree", expected="if self is self.master: self._method.main_%s(...)" % meth, found=str(len(mn)), fi=f)
            if mn and own:
                ctx.check(sc.order[mn[0]] < sc.order[own[0]], "Stage.%s: main_%s precedes the stage's own %s" % (name, meth, meth), detail="order", expected="main first", found="", fi=f)


# how clone() must treat each attribute initialised in Stage.__init__
COPY = "copy"      # per-stage mutable state: must be a fresh container / object
ALIAS = "alias"    # may be shared, with the reason
CLONE_TABLE = {
    "states": COPY, "qstates": COPY, "controls": COPY, "algebraics": COPY, "parameters": COPY, "variables": COPY,
    "_offsets": COPY, "_param_vals": COPY, "_state_der": COPY, "_scale_der": COPY, "_alg": COPY, "_state_next": COPY,
    "_constraints": COPY, "_initial": COPY, "_objective": COPY, "_method": COPY, "_placeholders": COPY,
    "_T": COPY, "_t0": COPY,
    # per-symbol tables: the clone reuses the template's symbols, but the TABLES are per-stage mutable state (a symbol declared
    # on one clone must not become known to the template and its siblings)
    "_meta": COPY, "_scale": COPY, "_catalog": COPY,
    "_var_original": (ALIAS, "link to the original tree (None for declared stages)"),
    "_T_scale": (ALIAS, "immutable number"),
}
# initialised afresh by Stage.__init__ of the new stage (constructor arguments or new placeholders)
CTOR_FRESH = {"_master", "parent", "_t", "_public_T", "_public_t0", "_tf", "_public_DT", "_public_DT_control", "_var_augmented"}
# not carried over by clone(): recorded limitations, each fails loudly or is irrelevant for templates
CLONE_EXEMPT = {
    "_signals": "B-spline signals of a template are not cloned: a template that declares one is rejected by clone() (obligation 'clone handles the template's B-spline signals' below; D82)",
    "_inf_inert": "inf_inert symbols of a template are not cloned: an unsubstituted symbol fails loudly in Opti",
    "_inf_der": "inf_der symbols of a template are not cloned: an unsubstituted symbol fails loudly in Opti",
    "_stages": "a template with sub-stages is rejected by clone() (obligation 'clone handles the template's sub-stages' below)",
}


def classify_value(v):
    if isinstance(v, ast.Call):
        fn = ast.unparse(v.func)
        if fn in ("copy", "deepcopy", "copy.copy", "copy.deepcopy", "HashOrderedDict", "defaultdict", "list", "HashDict", "HashList"):
            return COPY
        return COPY
    if isinstance(v, ast.Subscript):
        return COPY  # element of the substituted result list: a new expression
    if isinstance(v, ast.Attribute) and ast.unparse(v.value) == "self":
        return ALIAS
    return COPY


@rule("R12.2", min_instances=35, desc="clone completeness and independence: every attribute of Stage.__init__ is copied (never aliased when it is per-stage mutable state), re-created by the constructor, or exempt with a reason")
def r12_2(ctx):
    P = ctx.prog
    init = P.own_method("Stage", "__init__")
    attrs = sorted({w.attr for w in writes_in(init.node)})
    f = P.own_method("Stage", "clone")
    ws = {}
    for w in writes_in(f.node, recv="ret"):
        ws.setdefault(w.attr, []).append(w)
    for a in attrs:
        if a in CTOR_FRESH:
            ctx.ok("clone: %s is created afresh by the constructor" % a, fi=f)
            continue
        if a in CLONE_EXEMPT:
            ctx.check(a not in ws or True, "clone: %s exempt" % a, fi=f, sample={"exempt": CLONE_EXEMPT[a]})
            continue
        if a not in CLONE_TABLE:
            ctx.fail("clone: new attribute %s" % a, detail="attribute of Stage.__init__ not known to the clone table", expected="handled by clone() and listed", found="unlisted", fi=init)
            continue
        want = CLONE_TABLE[a]
        handled = a in ws
        ctx.check(handled, "clone carries over %s" % a, detail="attribute lost in the clone", expected="ret.%s = ..." % a, found="not assigned", fi=f)
        if not handled:
            continue
        kinds = set()
        for w in ws[a]:
            if w.kind == "assign":
                kinds.add(classify_value(w.node.value))
            else:
                kinds.add(COPY)
        if want == COPY:
            ctx.check(ALIAS not in kinds, "clone copies %s" % a, detail="clone shares mutable state with its template (and its siblings)",
                      expected="a copy (copy()/deepcopy()/new container)", found="; ".join(ast.unparse(w.node) for w in ws[a])[:100], fi=f, node=ws[a][0].node,
                      sample={"attr": a, "how": "; ".join(ast.unparse(w.node) for w in ws[a])[:80]})
        else:
            ctx.ok("clone shares %s" % a, fi=f, sample={"attr": a, "why": want[1]})
    # horizon overrides
    for a, kw in (("_T", "T"), ("_t0", "t0")):
        w = [x for x in ws.get(a, []) if x.kind == "assign"]
        sc = ctx.scope(f)
        ok = len(w) == 1 and [canon_guard(t, p) for t, p in sc.guards(w[0].node)] == [canon_guard("'%s' not in kwargs" % kw, True)]
        ctx.check(ok, "clone keeps the template's %s unless overridden" % kw, detail="override of %s ignored or template value lost" % kw, expected="if '%s' not in kwargs: ret.%s = copy(self.%s)" % (kw, a, a), found="", fi=f)
    # sub-stages of a template: cloned recursively, or the template is rejected -- never dropped silently
    handles_stages = "_stages" in ws or any(isinstance(n_, (ast.If, ast.Assert)) and "self._stages" in ast.unparse(n_.test) and (isinstance(n_, ast.Assert) or any(isinstance(x, ast.Raise) for x in n_.body))
                                             for n_ in walk_no_nested(f.node))
    ctx.check(handles_stages, "clone handles the template's sub-stages", detail="a template that owns sub-stages is cloned without them (half of the problem silently missing)",
              expected="clone the sub-stages recursively, or raise when self._stages is not empty", found="self._stages never read", fi=f)
    # B-spline signals of a template (D82): der() on the clone consults self._signals - cloned, or the template is rejected, never left empty
    handles_signals = "_signals" in ws or any(isinstance(n_, (ast.If, ast.Assert)) and "self._signals" in ast.unparse(n_.test) and (isinstance(n_, ast.Assert) or any(isinstance(x, ast.Raise) for x in n_.body))
                                              for n_ in walk_no_nested(f.node))
    ctx.check(handles_signals, "clone handles the template's B-spline signals", detail="der() on the clone treats the template's grid='bspline' symbols as constants in time (their derivative term silently vanishes)",
              expected="clone the signal table, or raise when self._signals is not empty", found="self._signals never read", fi=f)
    # shifted operands (next/prev/offset) keep their own table of inner expressions: those need the clone's placeholders too
    offs = [w for w in ws.get("_offsets", [])]
    sub_off = any(is_call_to(x, "substitute") and [ast.unparse(a) for a in x.args[1:]] == ["subst_from", "subst_to"] and "_offsets" in ast.unparse(ctx.scope(f).stmt_of(x)) + " ".join(ast.unparse(l[1]) for l in ctx.scope(f).enclosing_loops(x))
                  for x in walk_no_nested(f.node))
    ctx.check(bool(offs) and sub_off, "clone renews the placeholders inside next/prev/offset operands", detail="next(x*T) of a clone with an overridden T keeps the template's T (and t, t0, nested placeholders)",
              expected="the expressions stored in _offsets pass through substitute(.., subst_from, subst_to)", found="; ".join(ast.unparse(w.node)[:70] for w in offs), fi=f)
    ctor = [c for c in walk_no_nested(f.node) if isinstance(c, ast.Call) and ast.unparse(c.func) == "Stage"]
    ok = len(ctor) == 1 and ast.unparse(ctor[0].args[0]) == f.params[1] and any(k.arg is None for k in ctor[0].keywords)
    ctx.check(ok, "clone constructs the new stage under the given parent with the overrides", detail="constructor call", expected="Stage(parent, **kwargs)", found="; ".join(ast.unparse(c) for c in ctor), fi=f)


def clone_scenario(ctx):
    """Stage.clone run by the simulator (rkverif/sim.py) on a template with five placeholders (T, t0, t and two others), constraints
    on two grids (2 + 1, a third grid empty), an objective, two guesses and one offset operand.  `substitute` is given the meaning
    'element-wise marker', so that the result shows what was substituted and where it ended up."""
    from ..sim import Sim, fresh_obj
    from ..layout import Sym, Obj, freeze
    P = ctx.prog
    cache = P.__dict__.setdefault("_clone_sim", {})
    if "r" in cache:
        return cache["r"]
    f = P.own_method("Stage", "clone")
    phT, pht0, pht, ph1, ph2 = (Sym("ph", x) for x in ("T", "t0", "t", "at_tf_x", "sum_e"))
    K = freeze
    tpl_ph = [(phT, ("T", Sym("expr", "T"), Sym("argsT"), Sym("kwT"))), (pht0, ("t0", Sym("expr", "t0"), Sym("a0"), Sym("k0"))), (pht, ("t", Sym("expr", "t"), Sym("a"), Sym("k"))),
              (ph1, ("at_tf", Sym("expr", "x"), Sym("a1"), Sym("k1"))), (ph2, ("sum", Sym("expr", "e"), Sym("a2"), Sym("k2")))]
    cons = {"control": [(Sym("c", 0), Sym("m", 0), Sym("a", 0)), (Sym("c", 1), Sym("m", 1), Sym("a", 1))], "point": [(Sym("c", 2), Sym("m", 2), Sym("a", 2))], "integrator": []}
    guesses = [(Sym("g", 0), Sym("v", 0)), (Sym("g", 1), Sym("v", 1))]
    me = fresh_obj("self", _is_original=True, _stages=[], _signals={}, qstates=[Sym("q", 0)], T=phT, t0=pht0, t=pht, _placeholders={K(k): v for k, v in tpl_ph}, _constraints={g: list(v) for g, v in cons.items()},
                   _objective=Sym("objective"), _initial={K(k): v for k, v in guesses}, _offsets={K(Sym("off", 0)): (Sym("oe", 0), 1)},
                   _method=fresh_obj("method", T=Sym("mT"), t0=Sym("mt0"), opti=Sym("live_opti"), transcription=Sym("live_state")), _T=Sym("_T"), _t0=Sym("_t0"))
    ret = fresh_obj("ret", T=Sym("retT"), t0=Sym("rett0"), t=Sym("rett"), _placeholders={}, _initial={}, _constraints={})
    subs = []

    def h_substitute(sim, recv, args, kwargs, n):
        if len(args) != 3 or not isinstance(args[0], list):
            return NotImplemented
        subs.append((list(args[0]), list(args[1]) if isinstance(args[1], (list, tuple)) else args[1], list(args[2]) if isinstance(args[2], (list, tuple)) else args[2]))
        return [Sym("subst", freeze(x)) for x in args[0]]

    def h_copy(sim, recv, args, kwargs, n):
        x = args[0]
        return Obj(x.name + "'", dict(x.attrs)) if isinstance(x, Obj) else Sym("copy", freeze(x))
    def h_release(what):
        def h(sim, recv, args, kwargs, n):
            if isinstance(recv, Obj):
                for a_ in what:
                    recv.attrs[a_] = None
            return None
        return h
    hooks = {".main_untranscribe": h_release(["opti"]), ".untranscribe": h_release(["transcription"]), ".clean": h_release(["transcription"]),
             "substitute": h_substitute, "ca.substitute": h_substitute, "is_equal": lambda s_, r, a, k, n: freeze(a[0]) == freeze(a[1]), "copy": h_copy, "deepcopy": h_copy,
             "Stage": lambda s_, r, a, k, n: ret, "defaultdict": lambda s_, r, a, k, n: {}, "HashDict": lambda s_, r, a, k, n: {},
             "HashOrderedDict": lambda s_, r, a, k, n: ({freeze(x): y for x, y in (s_.iterable(a[0], n) if not isinstance(a[0], (list, tuple, dict)) else (a[0].items() if isinstance(a[0], dict) else a[0]))} if a else {})}
    truth = {"isinstance(ph_expr, MX)": True, "'T' not in kwargs": True, "'t0' not in kwargs": True, "'T' in kwargs": False, "'t0' in kwargs": False}
    # the test on the kind of a placeholder's expression may be spelled with any local name
    for n_ in ast.walk(f.node):
        if isinstance(n_, ast.Call) and isinstance(n_.func, ast.Name) and n_.func.id == "isinstance" and len(n_.args) == 2 and ast.unparse(n_.args[1]) == "MX":
            truth[ast.unparse(n_)] = True
    sim = Sim(P, hooks=hooks, truth=truth)
    out = sim.call(f, [me, Sym("parent")], {})
    cache["r"] = (f, out, ret, subs, tpl_ph, cons, guesses)
    return cache["r"]


@rule("R12.3", min_instances=7, desc="clone renews placeholders (T, t0, t mapped to the clone's own; others fresh) and substitutes them in placeholder definitions, constraints, objective and guess keys - decided on the result of a simulated clone() of a template with five placeholders, three constraints on two grids, an objective and two guesses")
def r12_3(ctx):
    from ..layout import Sym, freeze, short, LayoutUnknown
    try:
        f, out, ret, subs, tpl_ph, cons, guesses = clone_scenario(ctx)
    except LayoutUnknown as e:
        raise AnalysisError("Stage.clone could not be simulated: %s" % e)
    K = freeze
    ctx.check(out is ret, "clone returns the stage it built", detail="returned object", expected="return ret", found=short(out), fi=f)
    php = ret.attrs.get("_placeholders")
    keys = list(php.keys()) if isinstance(php, dict) else []
    want_fixed = [K(Sym("retT")), K(Sym("rett0")), K(Sym("rett"))]
    tplk = [K(k) for k, _ in tpl_ph]
    ok = len(keys) == 5 and keys[:3] == want_fixed and all(k not in tplk and k not in want_fixed for k in keys[3:]) and len(set(keys)) == 5
    ctx.check(ok, "clone maps T, t0, t to the clone's own placeholders and renews the others", detail="clone keeps referring to the template's placeholders (stages interfere)",
              expected="[ret.T, ret.t0, ret.t, fresh, fresh]", found=[short(k)[:40] for k in keys], fi=f, sample={"map": [short(k)[:40] for k in keys]})
    full = [s_ for s_ in subs if isinstance(s_[1], list) and isinstance(s_[2], list)]
    ok = bool(subs) and len(full) == len(subs) and all([K(x) for x in fr] == tplk and [K(x) for x in to] == keys for _, fr, to in full)
    ctx.check(ok, "clone substitutes every placeholder of the template", detail="substitution source / target lists", expected="every substitute(.., all template placeholders, their renewed symbols)",
              found="%d substitute calls, %d with complete lists" % (len(subs), sum(1 for _, fr, to in full if [K(x) for x in fr] == tplk and [K(x) for x in to] == keys)), fi=f)
    vals = list(php.values()) if isinstance(php, dict) else []
    ok = len(vals) == 5 and all(isinstance(v, tuple) and len(v) == 4 and v[0] == d[0] and K(v[2]) == K(d[2]) and K(v[3]) == K(d[3]) for v, (_, d) in zip(vals, tpl_ph))
    ctx.check(ok, "clone registers every renewed placeholder with the template's definition", detail="placeholder registration", expected="ret._placeholders[new] = (species, expr, args, kwargs) of old", found=[short(v)[:60] for v in vals[:2]], fi=f)
    ok = len(vals) == 5 and all(isinstance(v, tuple) and len(v) == 4 and K(v[1]) == K(Sym("subst", K(d[1]))) for v, (_, d) in zip(vals, tpl_ph))
    ctx.check(ok, "clone renews the placeholders nested inside a placeholder's own expression", detail="a clone's sum/integral/at_tf expression keeps referring to the template's placeholders (its at_tf(x), t, T): stages interfere silently",
              expected="expr of every definition substituted", found=[short(v[1])[:40] if isinstance(v, tuple) and len(v) == 4 else short(v)[:40] for v in vals], fi=f, sample={"registration": [short(v)[:50] for v in vals[:1]]})
    obj = ret.attrs.get("_objective")
    ctx.check(K(obj) == K(Sym("subst", K(Sym("objective")))), "clone unpacks the objective at the offset it was packed", detail="objective / constraints / guesses mixed up in the clone", expected="substituted objective of the template",
              found=short(obj)[:60], fi=f)
    ini = ret.attrs.get("_initial")
    ok = isinstance(ini, dict) and list(ini.keys()) == [K(Sym("subst", K(g))) for g, _ in guesses] and [K(v) for v in ini.values()] == [K(v) for _, v in guesses]
    ctx.check(ok, "clone pairs the substituted guess keys with the template's guess values", detail="guess table of the clone", expected="{substituted key i: value i}", found=short(list(ini.items()))[:100] if isinstance(ini, dict) else short(ini), fi=f)
    rc = ret.attrs.get("_constraints")
    ok = isinstance(rc, dict)
    if ok:
        for g, lst in cons.items():
            got = rc.get(g, [])
            got = list(got) if isinstance(got, (list, tuple)) else None
            if got is None or len(got) != len(lst):
                ok = False
                break
            for (c, m, a), t in zip(lst, got):
                if not (isinstance(t, tuple) and len(t) == 3 and K(t[0]) == K(Sym("subst", K(c))) and K(m) in [x for x in _subterms(K(t[1]))] and K(t[2]) == K(a)):
                    ok = False
    ctx.check(ok, "clone distributes the substituted constraints back over their grids in packing order", detail="constraints of one grid attached to another", expected="ret._constraints[grid][i] = (substituted c, merged meta, args) of the template's grid[i]",
              found=short({g: v for g, v in rc.items()})[:160] if isinstance(rc, dict) else short(rc), fi=f)


def _subterms(t):
    stack = [t]
    while stack:
        x = stack.pop()
        yield x
        if isinstance(x, tuple):
            stack.extend(x)


@rule("R12.4", min_instances=4, desc="one Opti per tree: sub-stages use the master's Opti; only the master creates it")
def r12_4(ctx):
    P = ctx.prog
    f = P.own_method("SamplingMethod", "transcribe")
    sc = ctx.scope(f)
    d = [x for x in sc.defs.get("opti", []) if x.kind == "assign"]
    ok = len(d) == 1 and ast.unparse(d[0].value) == "stage.master._method.opti"
    ctx.check(ok, "SamplingMethod.transcribe uses the master's Opti", detail="stage transcribed into its own Opti", expected="opti = stage.master._method.opti", found=ast.unparse(d[0].value) if d else None, fi=f)
    g = P.own_method("DirectMethod", "main_transcribe")
    news = [c for c in walk_no_nested(g.node) if isinstance(c, ast.Call) and ast.unparse(c.func) == "OptiWrapper"]
    ctx.check(len(news) == 1, "DirectMethod.main_transcribe creates the tree's single Opti", detail="Opti creation", expected="self.opti = OptiWrapper(stage)", found=str(len(news)), fi=g)
    others = []
    for cname in P.subclasses("DirectMethod"):
        for h in P.cls(cname).methods.values():
            if h.qualname == "DirectMethod.main_transcribe":
                continue
            for c in walk_no_nested(h.node):
                if isinstance(c, ast.Call) and ast.unparse(c.func) in ("OptiWrapper", "Opti", "ca.Opti", "casadi.Opti"):
                    others.append(h.qualname)
    ctx.check(not others, "no other method creates an Opti for the NLP", detail="second Opti in the tree", expected="none", found=str(others), fi=g)
    for name in ("eval_at_control", "eval_at_integrator", "eval_at_integrator_root", "eval"):
        h = P.own_method("SamplingMethod", name)
        ok = any(is_call_to(c, "eval_top") and ast.unparse(c.func.value) == "stage.master._method" and c.args and ast.unparse(c.args[0]) == "stage.master" for c in walk_no_nested(h.node))
        ctx.check(ok, "%s resolves the parent's global variables/parameters through the master" % name, detail="parent-level symbols left unsubstituted or resolved on the wrong stage",
                  expected="stage.master._method.eval_top(stage.master, ...)", found="", fi=h)


@rule("R12.5", min_instances=4, desc="clone() writes nothing to the template; stage() clones with the overrides, registers the new stage and invalidates")
def r12_5(ctx):
    P = ctx.prog
    f = P.own_method("Stage", "clone")
    ws = writes_in(f.node, recv="self")
    ctx.check(not ws, "Stage.clone leaves the template unchanged", detail="template modified by cloning", expected="no write to self.*", found="; ".join(w.attr for w in ws), fi=f, node=(ws[0].node if ws else None))
    muts = [c for c in walk_no_nested(f.node) if isinstance(c, ast.Call) and isinstance(c.func, ast.Attribute) and isinstance(c.func.value, ast.Attribute)
            and ast.unparse(c.func.value.value) == "self" and c.func.attr in ("append", "extend", "update", "pop", "clear", "move_to_end", "__setitem__")]
    ctx.check(not muts, "Stage.clone does not mutate the template's containers", detail="template container mutated", expected="none", found="; ".join(ast.unparse(m) for m in muts), fi=f)
    g = P.own_method("Stage", "stage")
    sc = ctx.scope(g)
    cl = [c for c in walk_no_nested(g.node) if is_call_to(c, "clone", g.params[1])]
    ok = len(cl) == 1 and ast.unparse(cl[0].args[0]) == "self" and any(k.arg is None and ast.unparse(k.value) == g.kwarg for k in cl[0].keywords)
    ctx.check(ok, "Stage.stage clones the template under this stage with the overrides", detail="template call", expected="template.clone(self, ..., **kwargs)", found="; ".join(ast.unparse(c) for c in cl), fi=g)
    # simulated calls: every override given to stage() reaches clone() / Stage() with its value - also the falsy ones (t0=0, T=0)
    from ..sim import Sim, fresh_obj
    from ..layout import Sym, Obj, freeze, LayoutUnknown
    for with_template in (True, False):
        for overrides in ({"t0": 0, "T": 5}, {"T": 0}, {"t0": Sym("sym_t0")}, {}):
            got = {}
            made = fresh_obj("made")
            tpl = fresh_obj("template")
            hooks = {".clone": lambda s_, r, a, k, n, got=got: (got.update({"via": "clone", "parent": a[0] if a else None, "kw": dict(k)}), made)[1],
                     "Stage": lambda s_, r, a, k, n, got=got: (got.update({"via": "Stage", "parent": a[0] if a else None, "kw": dict(k)}), made)[1],
                     "._set_transcribed": lambda s_, r, a, k, n: None}
            me = fresh_obj("self", _stages=[])
            try:
                known_params = [p_ for p_ in g.params[2:] if p_ in overrides]
                kw_direct = {p_: overrides[p_] for p_ in known_params}
                rest = {k_: v_ for k_, v_ in overrides.items() if k_ not in kw_direct}
                kw_direct[g.params[1]] = tpl if with_template else None
                out = Sim(P, hooks=hooks, truth={g.params[1]: with_template}).call(g, [me], kw_direct, extra_env={g.kwarg: dict(rest)} if g.kwarg else None)
            except LayoutUnknown as e:
                raise AnalysisError("Stage.stage could not be simulated: %s" % e)
            kw = {k_: v_ for k_, v_ in got.get("kw", {}).items() if k_ in ("t0", "T")}
            okc = got.get("via") == ("clone" if with_template else "Stage") and got.get("parent") is me and {k_: freeze(v_) for k_, v_ in kw.items()} == {k_: freeze(v_) for k_, v_ in overrides.items()} \
                and out is made and me.attrs["_stages"] == [made]
            ctx.check(okc, "Stage.stage(%s%s) hands the overrides on unchanged and registers the new stage" % ("template, " if with_template else "", ", ".join("%s=%s" % (k_, v_ if not isinstance(v_, Sym) else "<symbol>") for k_, v_ in overrides.items())),
                      detail="an override of the horizon is dropped or altered (a value such as t0=0 must not be mistaken for 'not given')", expected="%s(self, %s)" % ("template.clone" if with_template else "Stage", overrides),
                      found="%s with %s" % (got.get("via"), {k_: (v_ if not isinstance(v_, Sym) else "<symbol>") for k_, v_ in kw.items()}), fi=g)
    apps = [c for c in walk_no_nested(g.node) if is_call_to(c, "append", "self._stages")]
    ok = len(apps) == 1 and not sc.guards(apps[0])
    ok2, _ = must_on_all_paths(g.node.body, _is_invalidate)
    ctx.check(ok and ok2, "Stage.stage registers the new stage and invalidates", detail="new stage not part of the next transcription", expected="self._stages.append(s); self._set_transcribed(False)", found="", fi=g)


@rule("R12.6", min_instances=5, desc="deep copies link original and copy and share the method object; Stage.method stores a private deep copy; solutions address the copy of the queried stage")
def r12_6(ctx):
    P = ctx.prog
    f = P.own_method("Stage", "__deepcopy__")
    asg = {ast.unparse(st.targets[0]): ast.unparse(st.value) for st in walk_no_nested(f.node) if isinstance(st, ast.Assign)}
    cps = [st.targets[0].id for st in walk_no_nested(f.node) if isinstance(st, ast.Assign) and isinstance(st.targets[0], ast.Name) and isinstance(st.value, ast.Call)
           and ast.unparse(st.value.func) in ("copy.deepcopy", "deepcopy") and st.value.args and ast.unparse(st.value.args[0]) == "self"]
    cpn = cps[0] if cps else "cp"
    for k, v in ((cpn + "._var_original", "self"), ("self._var_augmented", cpn), (cpn + "._method", "self._method")):
        ctx.check(asg.get(k) == v, "Stage.__deepcopy__: %s = %s" % (k, v), detail="original/copy link", expected=v, found=asg.get(k), fi=f)
    g = P.own_method("Stage", "method")
    a = [st for st in walk_no_nested(g.node) if isinstance(st, ast.Assign) and ast.unparse(st.targets[0]) == "self._method"]
    ok = len(a) == 1 and isinstance(a[0].value, ast.Call) and ast.unparse(a[0].value.func) in ("deepcopy", "copy.deepcopy") and ast.unparse(a[0].value.args[0]) == g.params[1]
    ctx.check(ok, "Stage.method stores a private deep copy of the method", detail="stages given the same method object share one discretisation", expected="self._method = deepcopy(method)",
              found="; ".join(ast.unparse(x) for x in a), fi=g)
    s = P.own_method("OcpSolution", "__init__")
    asg = {ast.unparse(st.targets[0]): ast.unparse(st.value) for st in walk_no_nested(s.node) if isinstance(st, ast.Assign)}
    ctx.check(asg.get("self.stage") == "%s._augmented" % s.params[2], "OcpSolution addresses the transcribed copy of the queried stage", detail="solution read on another stage", expected="stage._augmented", found=asg.get("self.stage"), fi=s)
    c = P.own_method("OcpSolution", "__call__")
    rets = [ast.unparse(r.value) for r in walk_no_nested(c.node) if isinstance(r, ast.Return)]
    ctx.check(rets == ["OcpSolution(self.sol, stage=%s)" % c.params[1]], "sol(stage) re-targets the same numerical solution at that stage", detail="sol(stage)", expected="OcpSolution(self.sol, stage=stage)", found=rets, fi=c)


@rule("R12.7", min_instances=8, desc="a coupling constraint referring to another stage's boundary value is placed exactly once (before/after complementarity, shared with C04)")
def r12_7(ctx):
    from .c04 import r04_6
    r04_6(ctx)


@rule("R12.8", min_instances=4, desc="an edit of a sub-stage after a solve invalidates the OCP's cached transcription (the flag of the master is the one that is read; shared with C13)")
def r12_8(ctx):
    from .c13 import r13_7
    r13_7(ctx)


@rule("R12.9", min_instances=2, desc="parent-level symbols in coupling constraints / objective: DirectMethod.eval_top substitutes the stage's global variables by self.V and its global parameters by self.P (same order on both sides of the substitution)")
def r12_9(ctx):
    P = ctx.prog
    f = P.own_method("DirectMethod", "eval_top")
    calls = [c for c in walk_no_nested(f.node) if isinstance(c, ast.Call) and isinstance(c.func, ast.Name) and c.func.id == "substitute" and len(c.args) == 3]
    if len(calls) != 1:
        raise AnalysisError("DirectMethod.eval_top: expected one substitute(expr, from, to) call, found %d" % len(calls))
    c = calls[0]

    def flat_add(e):
        if isinstance(e, ast.BinOp) and isinstance(e.op, ast.Add):
            return flat_add(e.left) + flat_add(e.right)
        return [e]

    def kinds_from(e):
        # veccat(*(A+B)) / vvcat(A+B) / vertcat(veccat(*A), veccat(*B))
        if isinstance(e, ast.Call) and isinstance(e.func, ast.Name) and e.func.id in ("veccat", "vvcat", "vertcat", "vcat"):
            out = []
            for a in e.args:
                a = a.value if isinstance(a, ast.Starred) else a
                for x in flat_add(a):
                    if isinstance(x, ast.Call):
                        out += kinds_from(x)
                    else:
                        t = ast.unparse(x).replace('"', "'")
                        out.append({"stage.variables['']": "V", "stage.parameters['']": "P", "self.V": "V", "self.P": "P"}.get(t, "?" + t))
            return out
        t = ast.unparse(e).replace('"', "'")
        return [{"self.V": "V", "self.P": "P"}.get(t, "?" + t)]
    src, dst = kinds_from(c.args[1]), kinds_from(c.args[2])
    ok = src == dst and sorted(src) == ["P", "V"]
    ctx.check(ok, "DirectMethod.eval_top pairs global variables with self.V and global parameters with self.P", detail="a parent-level variable and parameter are substituted crosswise in coupling constraints and objective",
              expected="substitute(expr, [variables[''], parameters['']], [self.V, self.P]) in the same order", found="from %s to %s" % (src, dst), fi=f, node=c, sample={"from": src, "to": dst})
    ctx.check(ast.unparse(c.args[0]) in ("MX(expr)", "expr"), "DirectMethod.eval_top substitutes in the expression it was given", detail="eval_top", expected="substitute(MX(expr), ...)", found=ast.unparse(c.args[0]), fi=f)


@rule("R12.10", min_instances=3, desc="a stage made from a template that was transcribed on its own (a solved Ocp used as template) starts from an un-transcribed private copy of the method: no Opti, no transcription state of the template's solve (simulated clone)")
def r12_10(ctx):
    """D83: clone() deep-copied the template's method together with its live Opti; SplineMethod (and the method of a stage that
    declared none) wrote the clone's path constraints into that stale copy: 10 of 14 rows silently missing from the NLP."""
    from ..layout import Obj, LayoutUnknown
    try:
        f, out, ret, subs, tpl_ph, cons, guesses = clone_scenario(ctx)
    except LayoutUnknown as e:
        raise AnalysisError("Stage.clone could not be simulated: %s" % e)
    m = ret.attrs.get("_method")
    ctx.check(isinstance(m, Obj) and m.name != "method", "clone gives the new stage a private copy of the template's method", detail="method object shared between template and clone", expected="ret._method = deepcopy(self._method)",
              found=getattr(m, "name", str(m)), fi=f)
    if not isinstance(m, Obj):
        return
    ctx.check(m.attrs.get("opti") is None, "the clone's method holds no Opti of the template's own solve", detail="constraints of the new stage are written into a stale copy of the template's Opti and never reach the NLP",
              expected="ret._method.main_untranscribe(ret) (opti = None) after the deep copy", found="opti = %s" % (m.attrs.get("opti"),), fi=f)
    ctx.check(m.attrs.get("transcription") is None, "the clone's method holds no transcription state of the template's own solve", detail="stale variable / constraint lists of the template's solve in the new stage's method",
              expected="ret._method.untranscribe(ret) / clean() after the deep copy", found="state = %s" % (m.attrs.get("transcription"),), fi=f)


@rule("R12.11", min_instances=4, desc="the parent's own objective terms and point constraints reach the NLP of a multi-stage OCP whatever else the parent declares (shared with C05: R05.4 - every phase-1 path of DirectMethod.transcribe reaches the objective)")
def r12_11(ctx):
    from .c05 import r05_4
    r05_4(ctx)
