"""C20 -- ill-posed specifications are rejected, never silently transcribed.

Decided: a catalogue of guards, one per fault x site of the statement: each guard is present, sits
where it dominates the effect it protects, and raises (R20.1); every exception handler on the
declaration / transcription path re-raises or is one of a frozen list of benign handlers (R20.2);
constraints no method can place and expressions the inf-certificate cannot handle are rejected
(R20.3 = R04.1 + R15.2).
Not decided: which message is shown; faults outside the catalogue.
"""
import ast

from ..core import rule
from ..model import AnalysisError, nested_functions
from ..norm import Norm
from ..paths import walk_no_nested, Walker, const_guard
from ..effects import is_call_to

LEVEL = "other"


def raising_ifs(fnode, nested=False):
    """[(test, If node)] for `if test: ... raise` and [(test, Assert node)] for assert statements."""
    out = []
    it = ast.walk(fnode) if nested else walk_no_nested(fnode)
    for n in it:
        if isinstance(n, ast.If) and any(isinstance(x, ast.Raise) for x in n.body):
            out.append((n.test, n, True))
        if isinstance(n, ast.If) and any(isinstance(x, ast.Raise) for x in n.orelse):
            out.append((n.test, n, False))
        if isinstance(n, ast.Assert):
            out.append((n.test, n, None))
        # `if T: ..; return` immediately followed by `raise`: the raise is the else branch of that test
        for fld in ("body", "orelse", "finalbody"):
            lst = getattr(n, fld, None)
            if isinstance(lst, list):
                for i in range(1, len(lst)):
                    prev = lst[i - 1]
                    if isinstance(lst[i], ast.Raise) and isinstance(prev, ast.If) and not prev.orelse and prev.body and isinstance(prev.body[-1], (ast.Return, ast.Continue, ast.Break)):
                        out.append((prev.test, prev, False))
    return out


def norm_text(node):
    return ast.unparse(node).replace(" ", "").replace('"', "'")


def has_guard(ctx, f, pred, label, detail, expected, top_level=True, nested=False, unguarded=True):
    """Obligation: function f contains a raising guard whose test satisfies pred (on the normalised text),
    not nested under other conditions (unless top_level False) and not inside a try that swallows."""
    sc = ctx.scope(f)
    hits = []
    for test, node, pol in raising_ifs(f.node, nested=nested):
        t = norm_text(test)
        if pol is None:
            ok = pred(t, "assert")
        else:
            ok = pred(t, "raise" if pol else "else-raise")
        if ok:
            hits.append(node)
    good = []
    for h in hits:
        if nested and h not in sc.parent:
            good.append(h)
            continue
        gs = sc.guards(h)
        inside_try = False
        p = sc.parent.get(h)
        while p is not None and p is not f.node:
            if isinstance(p, ast.Try) and any(not any(isinstance(x, ast.Raise) for x in ast.walk(hh)) for hh in p.handlers) and h in ast.walk(ast.Module(body=p.body, type_ignores=[])):
                inside_try = True
            p = sc.parent.get(p)
        if inside_try:
            continue
        if top_level and unguarded and gs:
            continue
        good.append(h)
    ctx.check(bool(good), label, detail=detail, expected=expected,
              found=("guard found but nested under other conditions / inside a swallowing try" if hits else "no such guard in %s" % f.qualname), fi=f,
              node=(hits[0] if hits else None), sample={"guard": ast.unparse(good[0]).split("\n")[0][:100] if good else None})
    return good


def no_method_scenarios(ctx):
    """DirectMethod.transcribe (the method of a stage that declared none) is run on small stages: whatever needs a discretisation -
    a state, a control, an algebraic or a quadrature state, a path constraint on any non-point grid - must raise, in every phase and
    before anything is transcribed; a stage with none of them must pass phases 0 and 2 silently.  Decided on the simulated runs, so
    an or-chain, any(...), a loop with raise or next(...) are all the same."""
    from ..sim import Sim, fresh_obj
    from ..layout import Sym, LayoutUnknown
    P = ctx.prog
    f = P.own_method("DirectMethod", "transcribe")
    grids = ["control", "integrator", "integrator_roots", "inf"]

    def run(phase, sizes, filled):
        stage = fresh_obj("stage", nx=0, nu=0, nz=0, nxq=0, _constraints={g: ([(Sym("c"), Sym("m"), {})] if g == filled else []) for g in grids + ["point"]},
                          _objective=Sym("obj"), _initial={}, parameters={"": []})
        stage.attrs.update(sizes)
        done = []
        hooks = {n_: (lambda s_, r, a, k, n, n_=n_: done.append(n_)) for n_ in (".add_variables", ".add_parameters", ".set_initial", ".set_parameter", ".subject_to", ".add_objective")}
        hooks[".eval_top"] = lambda s_, r, a, k, n: Sym("top")
        sim = Sim(P, hooks=hooks)
        sim.self_class = "DirectMethod"
        sim.cfg["nu"] = stage.attrs["nu"] > 0      # the interpreter's policy table answers `stage.nu > 0` / `stage.nz` from its configuration
        sim.cfg["nz"] = stage.attrs["nz"] > 0
        try:
            sim.call(f, [fresh_obj("self", opti=fresh_obj("opti")), stage], {f.params[2]: phase})
        except LayoutUnknown as e:
            if str(e).startswith("raise reached"):
                return "raises" + (" after transcribing (%s)" % ", ".join(done) if done else "")
            raise AnalysisError("DirectMethod.transcribe could not be simulated: %s" % e)
        return "passes"
    labels = {"nx": ("stage with dynamics but no method raises", "no method declared"), "nu": ("stage with dynamics but no method raises", "no method declared"),
              "nz": ("a stage with algebraic or quadrature states but no method raises", "stage without a method whose DAE / quadrature is silently ignored"),
              "nxq": ("a stage with algebraic or quadrature states but no method raises", "stage without a method whose DAE / quadrature is silently ignored")}
    for size, (label, detail) in labels.items():
        got = {ph: run(ph, {size: 2}, None) for ph in (0, 1, 2)}
        ctx.check(all(v == "raises" for v in got.values()), "DirectMethod.transcribe: %s (%s > 0)" % (label, size), detail=detail, expected="an exception in every phase, before anything is transcribed",
                  found=str(got), fi=f)
    for g in grids:
        got = {ph: run(ph, {}, g) for ph in (0, 1, 2)}
        ctx.check(all(v == "raises" for v in got.values()), "DirectMethod.transcribe: path constraints on a stage without a method raise (grid %s)" % g,
                  detail="path constraints (grid control / integrator / inf) of a stage without a method are silently ignored", expected="an exception in every phase", found=str(got), fi=f)
    got = {ph: run(ph, {}, None) for ph in (0, 2)}
    ctx.check(all(v == "passes" for v in got.values()), "DirectMethod.transcribe: a stage of variables, parameters and point constraints only is accepted", detail="a legal method-less stage is rejected",
              expected="no exception in phases 0 and 2", found=str(got), fi=f)


@rule("R20.1", min_instances=30, desc="guard catalogue: every fault of the statement has a raising guard at the site that would otherwise transcribe it")
def r20_1(ctx):
    P = ctx.prog
    # 1/2. missing set_der / set_next for a state or quadrature state
    for fname, table in (("_ode", "_state_der"), ("_diffeq", "_state_next")):
        f = P.own_method("Stage", fname)
        loops = [l for l in walk_no_nested(f.node) if isinstance(l, ast.For) and ast.unparse(l.iter) in ("self.states", "self.qstates")]
        seen = set()
        for l in loops:
            k = l.target.id if isinstance(l.target, ast.Name) else None
            tr = [t for t in l.body if isinstance(t, ast.Try)]
            ok = len(tr) == 1 and any(("self.%s[%s]" % (table, k)) in ast.unparse(s) for s in tr[0].body) and \
                all(any(isinstance(x, ast.Raise) for x in h.body) for h in tr[0].handlers) and len(tr[0].handlers) >= 1
            seen.add(ast.unparse(l.iter))
            ctx.check(ok, "Stage.%s: missing %s entry for a member of %s raises" % (fname, table, ast.unparse(l.iter)), detail="state without derivative/update transcribed",
                      expected="try: ...self.%s[k] except: raise" % table, found=ast.unparse(l).split("\n")[1][:80] if l.body else "", fi=f, node=l)
        ctx.check(seen == {"self.states", "self.qstates"}, "Stage.%s covers states and quadrature states" % fname, detail="a state family is not checked", expected="both loops", found=sorted(seen), fi=f)
    # 3. missing parameter value
    f = P.own_method("Stage", "_param_value")
    has_guard(ctx, f, lambda t, k: ("notinself._param_vals" in t and k == "raise") or ("inself._param_vals" in t and "notin" not in t and k == "else-raise"),
              "Stage._param_value: parameter without value raises", "parameter without value", "if p not in self._param_vals: raise")
    # 4. / 9e. a stage without a method: simulated DirectMethod.transcribe on stages that need a discretisation (see below)
    no_method_scenarios(ctx)
    # 5. no solver
    f = P.own_method("DirectMethod", "main_transcribe")
    has_guard(ctx, f, lambda t, k: "self._solverisNone" in t and k == "raise", "DirectMethod.main_transcribe: no solver raises", "no solver declared", "if self._solver is None: raise (phase 1)", top_level=False)
    # 6. objective
    f = P.own_method("Stage", "add_objective")
    has_guard(ctx, f, lambda t, k: "notself.is_signal(%s)" % f.params[1] in t and k == "assert", "Stage.add_objective: signal-valued objective rejected", "signal objective", "assert not self.is_signal(term)")
    has_guard(ctx, f, lambda t, k: "is_scalar()" in t and t.startswith("not") and k == "raise", "Stage.add_objective: non-scalar objective rejected", "non-scalar objective", "if not MX(term).is_scalar(): raise")
    # 7. set_value on a non-parameter (declaration time and after transcription)
    f = P.own_method("Stage", "set_value")
    for g in nested_functions(f).values():
        gs = ctx.scope(f).guards(g.node)
        if gs and any(const_guard(t, {"self.master is not None and self.master.is_transcribed": True}) == p for t, p in gs) and \
                not any(const_guard(t, {"self.master is not None and self.master.is_transcribed": False}) == p for t, p in gs):
            continue  # closure only used once transcribed: covered by the method-level assert below
        has_guard(ctx, g, lambda t, k: "notinself._meta" in t and k == "raise", "Stage.set_value: unknown symbol rejected", "set_value on unknown symbol", "if parameter not in self._meta: raise")
        has_guard(ctx, g, lambda t, k: "self.parameters.values()" in t and t.startswith("not") and k == "raise", "Stage.set_value: non-parameter rejected", "set_value on non-parameter", "if not any(parameter in p ...): raise")
    for cname in ("SamplingMethod", "DirectMethod"):
        f = P.own_method(cname, "set_value")
        from .c09 import parameter_scenario
        sc_ = parameter_scenario(ctx, cname)
        if sc_["error"]:
            raise AnalysisError("%s.set_value could not be simulated: %s" % (cname, sc_["error"]))
        ctx.check(sc_["reject"] == "rejected", "%s.set_value: non-parameter rejected after transcription" % cname, detail="set_value on non-parameter after transcription",
                  expected="an assertion / exception when no declared parameter matches", found=sc_["reject"], fi=f)
    # 8. set_initial on a parameter / unknown symbol
    f = P.own_method("Stage", "set_initial")
    for g in nested_functions(f).values():
        has_guard(ctx, g, lambda t, k: "notinself._meta" in t and "notinself._placeholders" in t and k == "raise", "Stage.set_initial: unknown symbol rejected", "guess on unknown symbol", "raise")
        has_guard(ctx, g, lambda t, k: "self.parameters.values()" in t and not t.startswith("not") and k == "raise", "Stage.set_initial: parameter rejected", "guess on a parameter", "raise")
        # among the placeholders only the horizon symbols (ocp.T, ocp.t0) stand for decision variables that can be given a guess
        has_guard(ctx, g, lambda t, k: "inself._placeholders" in t and "self.T" in t and "self.t0" in t and k == "raise", "Stage.set_initial: a placeholder other than ocp.T / ocp.t0 is rejected",
                  "set_initial(ocp.at_t0(x), v) / at_tf / integral is accepted and silently dropped", "if var in self._placeholders and not (is_equal(var, self.T) or is_equal(var, self.t0)): raise")
    # 9. grid names
    f = P.own_method("Stage", "subject_to")
    from .c04 import subject_to_table
    _f, st_table, _stored = subject_to_table(ctx)
    ctx.check(st_table.get(("no_such_grid", True)) == "<raise>" and st_table.get(("no_such_grid", False)) == "<raise>", "Stage.subject_to: unknown grid rejected", detail="unknown grid name",
              expected="raise (signal and non-signal expressions alike)", found=str({k: v for k, v in st_table.items() if k[0] == "no_such_grid"}), fi=f)
    ctx.check(st_table.get(("point", True)) == "<raise>", "Stage.subject_to: a signal expression on grid 'point' is rejected", detail="path constraint declared as a point constraint",
              expected="raise", found=str(st_table.get(("point", True))), fi=f)
    # 9b. grid names of integral / sum and of variable / parameter declarations: a name no method reads is rejected
    for fname, arg in (("integral", "grid"), ("sum", "grid"), ("register_variable", "grid"), ("register_parameter", "grid")):
        g = P.own_method("Stage", fname)
        sg = ctx.scope(g)
        ok = False
        found = "no rejection of unknown names"
        # accepted shapes: `if grid not in [...]: raise`, or an if/elif chain on grid== whose final else raises
        for test, node, pol in raising_ifs(g.node):
            t = norm_text(test)
            if pol is True and (t.startswith("%snotin[" % arg) or t.startswith("%snotin(" % arg) or t.startswith("%s!=" % arg)):
                # must not be preceded by a return on the same path, nor nested under another condition
                if not sg.guards(node):
                    ok = True
                    found = t[:80]
        chain = [i for i in walk_no_nested(g.node) if isinstance(i, ast.If) and norm_text(i.test).startswith("%s==" % arg)]
        last = [i for i in chain if i.orelse and not (len(i.orelse) == 1 and isinstance(i.orelse[0], ast.If))]
        if len(last) == 1 and any(isinstance(x, ast.Raise) for x in last[0].orelse):
            ok = True
            found = "if/elif chain ending in raise"
        ctx.check(ok, "Stage.%s: unknown grid rejected" % fname, detail="a grid name that no method reads is accepted (the request is silently treated as another grid, or the symbol is silently never created)",
                  expected="if %s not in [<names the methods read>]: raise" % arg, found=found, fi=g, sample={"fn": fname, "guard": found})
    f = P.own_method("Stage", "_sample")
    sc = ctx.scope(f)
    from .c07 import sample_dispatch
    disp = sample_dispatch(ctx)
    ok = disp.get(("no_such_grid", None)) == "<raise>" and all(v != "<raise>" and not str(v).startswith("<unknown") for k_, v in disp.items() if k_[0] != "no_such_grid")
    ctx.check(ok, "Stage._sample: unknown grid rejected", detail="unknown grid name in sample", expected="final else: raise", found="", fi=f)
    # 9c. a DAE must be square: as many algebraic equations as algebraic variables (otherwise equations are dropped or variables left free)
    f = P.own_method("Stage", "_ode")
    has_guard(ctx, f, lambda t, k: ("self.nz" in t and ("alg" in t)) and k in ("raise", "assert"), "Stage._ode: number of algebraic equations must match the number of algebraic variables",
              "add_alg equations without (enough) algebraic variables are dropped by DirectCollocation; missing equations leave algebraic variables undetermined", "if alg.numel() != self.nz: raise")
    # 9d. a discrete-time model (set_next) cannot carry algebraic variables / equations: _diffeq has no place for them
    f = P.own_method("Stage", "_diffeq")
    has_guard(ctx, f, lambda t, k: ("self.nz" in t or "self._alg" in t) and k in ("raise", "assert"), "Stage._diffeq: algebraic variables / equations with a discrete-time model are rejected",
              "set_next model with algebraic variables: the algebraic equation, and every constraint or objective term on z, silently vanish", "if self.nz>0 or self._alg: raise")
    # 10. foreign symbols
    f = P.own_method("Stage", "_ode")
    has_guard(ctx, f, lambda t, k: t == "notret.has_free()" and k == "assert", "Stage._ode: symbols that do not belong to the stage are rejected", "foreign symbol in the dynamics", "assert not ret.has_free()")
    has_guard(ctx, f, lambda t, k: "depends_on(expr,self.DT)" in t and k == "assert", "Stage._ode: DT in the ODE rejected", "horizon symbol DT inside the ODE", "assert not depends_on(expr, self.DT)")
    has_guard(ctx, f, lambda t, k: "depends_on(expr,self.DT_control)" in t and k == "assert", "Stage._ode: DT_control in the ODE rejected", "horizon symbol DT_control inside the ODE", "assert not depends_on(expr, self.DT_control)")
    f = P.own_method("SamplingMethod", "discrete_system")
    has_guard(ctx, f, lambda t, k: t == "intg.has_free()" and k == "raise", "discrete_system: free symbols in the step map rejected", "foreign symbol in the discretised system", "if intg.has_free(): raise")
    has_guard(ctx, f, lambda t, k: t == "notret.has_free()" and k == "assert", "discrete_system: free symbols in F rejected", "foreign symbol", "assert not ret.has_free()")
    f = P.own_method("Stage", "signal_shape")
    has_guard(ctx, f, lambda t, k: "notinself._catalog" in t and k == "raise", "Stage.signal_shape: foreign symbol rejected", "foreign symbol", "raise")
    f = P.function("casadi_helpers", "for_all_primitives")
    sc = ctx.scope(f)
    class W(Walker):
        def guard(s, test, state):
            return const_guard(test, {"%s.is_symbolic()" % f.params[0]: False, "%s.is_valid_input()" % f.params[0]: False})
    exits = W().run(f.node.body, True)
    ok = not exits
    ctx.check(ok, "for_all_primitives: an expression that is not a concatenation of symbols is rejected", detail="set_value/set_initial/set_der on an arbitrary expression", expected="else: raise", found="", fi=f)
    # 11. constant-false constraint
    f = P.own_method("OptiWrapper", "subject_to")
    from .c04 import subject_to_scenarios
    tab = subject_to_scenarios(f)
    ctx.check(tab.get("const-false") == ("raise", 0), "OptiWrapper.subject_to: constant-false constraint rejected", detail="constraint that is never satisfied",
              expected="raise", found=str(tab.get("const-false")), fi=f)
    f = P.own_method("OptiWrapper", "transcribe_placeholders")
    sc = ctx.scope(f)
    conts = [c for c in walk_no_nested(f.node) if isinstance(c, ast.Continue)]
    ok = True
    for c in conts:
        from ..paths import canon_guard
        ts = [canon_guard(t, p)[0].replace(" ", "").replace('"', "'") for t, p in sc.path_guards(c) if canon_guard(t, p)[1]]
        ok = ok and any("is_constant()" in t and "is_one()" in t for t in ts)
    ctx.check(ok, "transcribe_placeholders: only constant-TRUE constraints are skipped", detail="a constraint that becomes constant-false after substitution is silently dropped",
              expected="continue only under MX(c).is_constant() and MX(c).is_one()", found="; ".join(ast.unparse(t) for c in conts for t, p in sc.guards(c)), fi=f)
    # 13. algebraic equations with an explicit scheme
    for name in ("intg_rk", "intg_expl_euler"):
        f = P.own_method("SamplingMethod", name)
        has_guard(ctx, f, lambda t, k: t == "%s.is_empty()" % f.params[5] and k == "assert", "%s: algebraic variables rejected" % name, "DAE with an explicit scheme", "assert Z.is_empty()")
    # 14. SplineMethod restrictions
    f = P.own_method("SplineMethod", "transcribe_start")
    has_guard(ctx, f, lambda t, k: "numel_out('alg')==0" in t and k == "assert", "SplineMethod: DAE rejected", "DAE under SplineMethod", "assert ode.numel_out('alg')==0")
    has_guard(ctx, f, lambda t, k: "sparsity_in('t').nnz()==0" in t and k == "assert", "SplineMethod: time-varying dynamics rejected", "time dependence under SplineMethod", "assert ode.sparsity_in('t').nnz()==0")
    tr = [t for t in walk_no_nested(f.node) if isinstance(t, ast.Try) and any("evalf(A)" in ast.unparse(s).replace(" ", "") for s in t.body)]
    ok = len(tr) == 1 and all(any(isinstance(x, ast.Raise) for x in h.body) for h in tr[0].handlers)
    ctx.check(ok, "SplineMethod: nonlinear dynamics rejected", detail="nonlinear dynamics under SplineMethod", expected="try: A = evalf(A) ... except: raise", found="", fi=f)
    has_guard(ctx, f, lambda t, k: "is_forest" in t and k == "assert", "SplineMethod: non-chain dynamics rejected", "dynamics that are not integrator chains", "assert nx.is_forest(G)")
    f = P.own_method("SplineMethod", "add_constraints")
    has_guard(ctx, f, lambda t, k: "'integrator'notinstage._constraints" in t and k == "assert", "SplineMethod: grid='integrator' constraints rejected", "unplaceable constraint", "assert 'integrator' not in stage._constraints")
    f = P.own_method("SplineMethod", "add_variables")
    has_guard(ctx, f, lambda t, k: "localize_t0" in t and "localize_T" in t and k == "assert", "SplineMethod: localised grids rejected", "unsupported grid formulation", "assert not localize_t0 and not localize_T")
    # 16. declaration consistency
    f = P.own_method("Stage", "set_der")
    for g in nested_functions(f).values():
        has_guard(ctx, g, lambda t, k: "notinself.states" in t and "notinself.qstates" in t and k == "raise", "Stage.set_der: non-state rejected", "set_der on a non-state", "raise")
    has_guard(ctx, f, lambda t, k: t == "notself._state_next" and k == "assert", "Stage.set_der: mixing with set_next rejected", "continuous and discrete dynamics mixed", "assert not self._state_next")
    f = P.own_method("Stage", "set_next")
    has_guard(ctx, f, lambda t, k: t == "notself._state_der" and k == "assert", "Stage.set_next: mixing with set_der rejected", "continuous and discrete dynamics mixed", "assert not self._state_der")
    f = P.own_method("Stage", "offset")
    has_guard(ctx, f, lambda t, k: "int(offset)!=offset" in t and k == "raise", "Stage.offset: non-integer shift rejected", "fractional offset", "raise")


# exception handlers that do not re-raise, with the reason each is benign (frozen; anything else is a violation)
HANDLER_WHITELIST = {
    ("SamplingMethod.eval_at_control", "<bare>", "assign literal"): "symvar of a numeric (non-MX) expression: it has no symbols, nothing to shift",
    ("SamplingMethod.add_inf_constraints", "IndexError", "pass"): "drop discipline of shifted placements (C04 R04.5)",
    ("MultipleShooting.add_constraints", "IndexError", "pass"): "drop discipline of shifted placements (C04 R04.5)",
    ("SingleShooting.add_constraints", "IndexError", "pass"): "drop discipline of shifted placements (C04 R04.5)",
    ("DirectCollocation.add_constraints", "IndexError", "pass"): "drop discipline of shifted placements (C04 R04.5)",
    ("OptiWrapper.transcribe_placeholders", "<bare>", "assign False"): "a symbolic bound cannot be evaluated: treated as finite (keeps the bound)",
    ("SplineMethod.add_constraints_noninf", "<bare>", "assign False"): "a symbolic bound cannot be evaluated: treated as finite (keeps the bound)",
    ("Stage._grid_control", "IndexError", "assign call DM.nan"): "sampling (not transcription) of a shifted expression outside the horizon yields NaN",
    ("is_numeric", "<bare>", "return False"): "type probe: a symbolic expression is simply not numeric",
    ("get_meta", "<bare>", "assign literal"): "stack-frame metadata for error messages only",
    ("Ocp.sys_simulator", "<bare>", "assign 0"): "CasADi API compatibility (older integrator signature)",
    ("LseGroup.__call__", "<bare>", "def logsumexp"): "CasADi API compatibility (logsumexp fallback)",
    ("DirectMethod.fill_placeholders_T", "KeyError", "pass"): "table lookup miss: no user guess for ocp.T, the declared FreeTime guess stands (D17 repair); try body restricted to the lookup",
    ("DirectMethod.fill_placeholders_t0", "KeyError", "pass"): "table lookup miss: no user guess for ocp.t0, the declared FreeTime guess stands (D17 repair); try body restricted to the lookup",
}

# handlers that are benign only because the guarded block is a single table lookup
LOOKUP_ONLY = {("DirectMethod.fill_placeholders_T", "KeyError", "pass"), ("DirectMethod.fill_placeholders_t0", "KeyError", "pass")}


def lookup_only(t):
    """try body = one assignment from a subscript (nothing else whose KeyError could be swallowed)"""
    return len(t.body) == 1 and isinstance(t.body[0], ast.Assign) and isinstance(t.body[0].value, ast.Subscript) \
        and not any(isinstance(x, ast.Call) for x in ast.walk(t.body[0].value))

def handler_shape(h):
    """Shape of the first statement of a handler, independent of local variable names."""
    if not h.body:
        return "empty"
    st = h.body[0]
    if isinstance(st, ast.Pass):
        return "pass"
    if isinstance(st, ast.Return):
        return "return " + (repr(st.value.value) if isinstance(st.value, ast.Constant) else "expr")
    if isinstance(st, ast.Assign):
        v = st.value
        if isinstance(v, ast.Constant):
            return "assign " + repr(v.value)
        if isinstance(v, (ast.List, ast.Dict, ast.Tuple)):
            return "assign literal"
        if isinstance(v, ast.Call):
            return "assign call " + ast.unparse(v.func)
        return "assign expr"
    if isinstance(st, (ast.FunctionDef,)):
        return "def " + st.name
    return type(st).__name__


HANDLER_SCOPE = ["Stage", "Ocp", "OptiWrapper", "OptiSolWrapper", "OcpSolution", "TranscribedPlaceholders", "AbstractSignal", "BSplineSignal", "LseGroup"]


@rule("R20.2", min_instances=20, desc="handler discipline: every except on the declaration/transcription path re-raises, or is one of the frozen benign handlers")
def r20_2(ctx):
    P = ctx.prog
    funcs = []
    for cname in HANDLER_SCOPE + P.subclasses("DirectMethod") + P.subclasses("Grid"):
        if P.has_cls(cname):
            for f in P.cls(cname).methods.values():
                funcs.append(f)
                funcs += list(nested_functions(f).values())
    for name in ("for_all_primitives", "is_numeric", "reinterpret_expr", "get_meta", "merge_meta", "get_ranges_dict", "DM2numpy", "reshape_number"):
        m = P.module("casadi_helpers")
        if name in m.functions:
            funcs.append(m.functions[name])
    seen = set()
    n_handlers = 0
    for f in funcs:
        if f.qualname in seen:
            continue
        seen.add(f.qualname)
        for t in walk_no_nested(f.node):
            if not isinstance(t, ast.Try):
                continue
            for h in t.handlers:
                n_handlers += 1
                typ = ast.unparse(h.type) if h.type is not None else "<bare>"
                reraises = any(isinstance(x, ast.Raise) for x in ast.walk(h))
                first = norm_text(h.body[0]).split("\n")[0] if h.body else ""
                key = (f.qualname, typ, handler_shape(h))
                ok = reraises or key in HANDLER_WHITELIST
                if ok and not reraises and key in LOOKUP_ONLY:
                    ok = lookup_only(t)
                ctx.check(ok, "%s: except %s" % (f.qualname, typ), detail="exception swallowed: %s" % first[:40],
                          expected="re-raise, or a handler of the frozen benign list", found="except %s: %s" % (typ, first[:60]), fi=f, node=h,
                          sample={"handler": key, "why": "re-raises" if reraises else HANDLER_WHITELIST.get(key)})
    ctx.note("handlers", n_handlers)


@rule("R20.3", min_instances=30, desc="a constraint no method can place and an expression the inf certificate cannot handle are rejected (R04.1 + R15.2)")
def r20_3(ctx):
    from .c04 import r04_1
    from .c15 import r15_2
    r04_1(ctx)
    r15_2(ctx)


@rule("R20.4", min_instances=5, desc="model features SplineMethod cannot represent are rejected: DAE, time-varying, nonlinear and affine (constant / parameter term) dynamics, localised grids (R17.5, shared with C17)")
def r20_4(ctx):
    from .c17 import r17_5
    r17_5(ctx)


@rule("R20.5", min_instances=1, desc="an ill-posed OCP is rejected on every solve, not only on the first: a failed transcription is not cached (R13.10, shared with C13)")
def r20_5(ctx):
    from .c13 import r13_10
    r13_10(ctx)


def _chain_splitters(P):
    """Functions of rockit that take a comparison apart (body inspects .is_op(..) and .dep(..))."""
    out = []
    for f in P.all_functions(include_nested=False):
        attrs = {x.attr for x in ast.walk(f.node) if isinstance(x, ast.Attribute)}
        if "is_op" in attrs and "dep" in attrs and any(isinstance(r, ast.Return) and r.value is not None for r in ast.walk(f.node)):
            out.append(f)
    return out


@rule("R20.6", min_instances=3, desc="a constraint that became constant by placeholder substitution (fixed T/t0/tf) is judged link by link: the numeric value of a folded chain lb <= (g <= ub) is not its truth value")
def r20_6(ctx):
    """D77: `0 <= (ocp.T <= 0.5)` with T=1 folded to 0 <= 0 == 1 and was skipped as 'true'; `1.5 <= (ocp.T <= 5)` with T=2 was rejected."""
    P = ctx.prog
    f = P.own_method("OptiWrapper", "transcribe_placeholders")
    sc = ctx.scope(f)
    splitters = _chain_splitters(P)
    ctx.check(bool(splitters), "rockit has a function that takes a chained comparison apart", detail="no splitter: chained constant constraints can only be judged by their folded value",
              expected="a helper inspecting is_op(OP_LE/OP_LT) and dep()", found="none", fi=f)
    from .c04 import replay_loop
    rl = replay_loop(ctx, f)
    if rl is None:
        raise AnalysisError("OptiWrapper.transcribe_placeholders: replay loop over the stored constraints not found")
    loop = rl[0]
    skips = [s for s in ast.walk(loop) if isinstance(s, ast.Continue)]
    if not skips:
        raise AnalysisError("OptiWrapper.transcribe_placeholders: no skip of constant constraints found (anchor moved?)")
    # names that hold the links: assigned from a call whose callee is a splitter (possibly wrapped in the placeholder substitution)
    link_names = {}
    for st in ast.walk(loop):
        if isinstance(st, ast.Assign) and len(st.targets) == 1 and isinstance(st.targets[0], ast.Name):
            for c in ast.walk(st.value):
                if isinstance(c, ast.Call) and any(g in splitters for g in P.resolve_call(f, c)):
                    link_names[st.targets[0].id] = (st, c)
    for s in skips:
        from ..paths import canon_guard
        gs = [(ast.parse(canon_guard(g, p)[0], mode="eval").body, canon_guard(g, p)[1]) for g, p in sc.path_guards(s)]
        gs = [(g, p) for g, p in gs if p]
        names = {x.id for g, p in gs for x in ast.walk(g) if isinstance(x, ast.Name)}
        ok = bool(names & set(link_names))
        ctx.check(ok, "OptiWrapper.transcribe_placeholders skips a constant constraint only when every link of the chain holds", detail="a false two-sided constraint on a fixed horizon is silently dropped (and a true one rejected)",
                  expected="continue guarded by all(<link is one> for link in <splitter>(original constraint))", found=" and ".join(ast.unparse(g)[:80] for g, p in gs) or "unguarded", fi=f, node=s)
    # the splitter is applied to the un-substituted expression (the substituted one is already folded)
    for nm, (st, c) in sorted(link_names.items()):
        arg = c.args[0] if c.args else None
        src = None
        if isinstance(arg, ast.Name) and isinstance(loop.target, ast.Tuple) and isinstance(loop.iter, ast.Call) and ast.unparse(loop.iter.func) == "zip":
            tn = [ast.unparse(e) for e in loop.target.elts]
            if arg.id in tn and tn.index(arg.id) < len(loop.iter.args):
                src = ast.unparse(loop.iter.args[tn.index(arg.id)])
        if src is None and isinstance(arg, ast.Name) and isinstance(loop.target, ast.Tuple) and isinstance(loop.iter, ast.Call) and ast.unparse(loop.iter.func) == "zip":
            # for c, (<orig>, scale, meta) in zip(res[:n], self.constraints)
            for t, a in zip(loop.target.elts, loop.iter.args):
                if isinstance(t, ast.Tuple) and t.elts and isinstance(t.elts[0], ast.Name) and t.elts[0].id == arg.id and ast.unparse(a) == "self.constraints":
                    src = "self.constraints[i][0]"
        if src is None and isinstance(arg, ast.Name):
            # <orig>, scale, meta = self.constraints[i]   /   <orig> = self.constraints[i][0]
            for b in ast.walk(loop):
                if isinstance(b, ast.Assign) and len(b.targets) == 1:
                    t, v = b.targets[0], b.value
                    if isinstance(t, ast.Tuple) and t.elts and isinstance(t.elts[0], ast.Name) and t.elts[0].id == arg.id and isinstance(v, ast.Subscript) and ast.unparse(v.value) == "self.constraints":
                        src = ast.unparse(v) + "[0]"
                    elif isinstance(t, ast.Name) and t.id == arg.id and isinstance(v, ast.Subscript) and ast.unparse(v.slice) == "0" and isinstance(v.value, ast.Subscript) and ast.unparse(v.value.value) == "self.constraints":
                        src = ast.unparse(v)
        elif src is None and arg is not None:
            src = ast.unparse(arg)
        ok = src is not None and "self.constraints" in src and "[0]" in src.replace(" ", "") and "res" not in {x.id for x in ast.walk(ast.parse(src)) if isinstance(x, ast.Name)}
        ctx.check(ok, "the chain is taken apart before placeholder substitution", detail="after substitution the chain is already folded into one number", expected="<splitter>(c[0] of self.constraints)",
                  found="%s <- %s" % (ast.unparse(c)[:60], src), fi=f, node=c)


@rule("R20.7", min_instances=3, desc="the chain splitter returns the right links: lb <= (g <= ub) stands for lb <= g and g <= ub, (lb <= g) <= ub likewise (the middle operand is compared with both ends)")
def r20_7(ctx):
    P = ctx.prog
    sps = _chain_splitters(P)
    if not sps:
        raise AnalysisError("no chain splitter found (R20.6 reports its absence)")
    for f in sps:
        sc = ctx.scope(f)

        def expand(x):
            """operand text with local aliases (a = e.dep(0), ...) expanded down to dep-paths of the argument"""
            if isinstance(x, ast.Name):
                v = sc.reaching(x.id, x)
                if v is not None:
                    return expand(v)
                ds = [d for d in sc.defs.get(x.id, []) if d.kind in ("assign", "unpack")]
                # a, b = e.dep(0), e.dep(1)
                for d in ds:
                    st = d.stmt
                    if isinstance(st, ast.Assign) and isinstance(st.targets[0], ast.Tuple) and isinstance(st.value, ast.Tuple):
                        for t, v in zip(st.targets[0].elts, st.value.elts):
                            if isinstance(t, ast.Name) and t.id == x.id:
                                return expand(v)
                return x.id
            if isinstance(x, ast.Call) and isinstance(x.func, ast.Attribute) and x.func.attr == "dep" and len(x.args) == 1:
                return "%s.dep(%s)" % (expand(x.func.value), ast.unparse(x.args[0]))
            if isinstance(x, ast.Call) and isinstance(x.func, ast.Name) and x.func.id == "MX" and len(x.args) == 1:
                return expand(x.args[0])
            return ast.unparse(x)

        def link(x):
            """('cmp', left, right) for a rebuilt comparison, ('sub', path) for a sub-expression handed on as it is"""
            if isinstance(x, ast.Compare) and len(x.ops) == 1:
                return ("cmp", expand(x.left), expand(x.comparators[0]))
            if isinstance(x, ast.Call) and len(x.args) == 2 and not x.keywords and not (isinstance(x.func, ast.Attribute) and x.func.attr == "dep"):
                return ("cmp", expand(x.args[0]), expand(x.args[1]))
            return ("sub", expand(x))
        arg = f.params[0]
        rets = [r for r in walk_no_nested(f.node) if isinstance(r, ast.Return) and isinstance(r.value, ast.List)]
        E = None
        two = [r for r in rets if len(r.value.elts) == 2]
        if len(two) < 2:
            raise AnalysisError("%s: expected a two-link return for the right-nested and for the left-nested chain" % f.qualname)
        seen = {"right": False, "left": False}
        for r in two:
            l0, l1 = link(r.value.elts[0]), link(r.value.elts[1])
            # the root the dep-paths hang on
            roots = {t.split(".dep(")[0] for l in (l0, l1) for t in l[1:]}
            root = roots.pop() if len(roots) == 1 else None
            ok = False
            form = None
            if root is not None:
                A, B = root + ".dep(0)", root + ".dep(1)"
                if l1 == ("sub", B):          # lb <= (g <= ub): [lb <= g, (g <= ub)]
                    form = "right"
                    ok = l0 == ("cmp", A, B + ".dep(0)")
                elif l0 == ("sub", A):        # (lb <= g) <= ub: [(lb <= g), g <= ub]
                    form = "left"
                    ok = l1 == ("cmp", A + ".dep(1)", B)
            if form:
                seen[form] = True
            ctx.check(ok, "%s %s-nested chain: the middle operand is compared with both ends" % (f.name, form or "?"), detail="a link compares the wrong operands: a false bound of a constant two-sided constraint goes unnoticed",
                      expected="[lb <= g, (g <= ub)] for lb <= (g <= ub); [(lb <= g), g <= ub] for (lb <= g) <= ub", found="[%s, %s]" % (l0, l1), fi=f, node=r)
        ctx.check(all(seen.values()), "%s handles both nestings of a chain" % f.name, detail="one nesting is not taken apart", expected="right- and left-nested", found=str(seen), fi=f)


@rule("R20.8", min_instances=3, desc="der() of an expression is refused when it cannot be formed: shifted operands, symbols of another stage, controls and algebraic variables (shared with C16: R16.2)")
def r20_8(ctx):
    from .c16 import r16_2
    r16_2(ctx)


@rule("R20.9", min_instances=1, desc="a two-sided path constraint whose instance at a node folds to a constant (only horizon quantities inside, fixed horizon) is judged link by link like the phase-2 constraints (R20.6): the placement sites of the sampling methods reach the chain splitter")
def r20_9(ctx):
    """D90 (known): `0 <= (ocp.t <= 0.5)` with Ocp(T=1.0): the instance at the final node is `0 <= (1 <= 0.5)`, which CasADi folds to
    `0 <= 0` = true before OptiWrapper.subject_to sees it; the violated instance is dropped as 'always satisfied' (the free-time
    twin contains the row and is infeasible at T=1)."""
    P = ctx.prog
    splitters = [g for g in P.all_functions(include_nested=False) if g.name == "comparison_links"]
    if not splitters:
        raise AnalysisError("comparison_links (the chain splitter) was not found")
    missing = []
    n = 0
    for cname in ("MultipleShooting", "SingleShooting", "DirectCollocation"):
        f = P.own_method(cname, "add_constraints")
        seen, _ = P.reachable([f], concrete=cname, max_depth=3, stop=lambda g: g.cls is None and g.module.relpath.endswith("casadi_helpers.py") and g.name != "comparison_links")
        n += 1
        if not any(q.split(".")[-1] == "comparison_links" or q.endswith(":comparison_links") for q in seen):
            missing.append(cname)
    ctx.check(not missing, "the path-constraint placements of the sampling methods judge a constant two-sided instance link by link",
              detail="a chained constraint on horizon quantities that is violated at a node of a fixed horizon is folded to 'true' by CasADi and dropped silently",
              expected="instances that evaluate to a constant are split with comparison_links(original constraint) and every link must hold (else raise)",
              found="add_constraints of %s hand eval_at_*(stage, c, ..) straight to opti.subject_to" % ", ".join(missing), fi=P.own_method("OptiWrapper", "subject_to"))


@rule("R20.10", min_instances=5, desc="ill-formed placement arguments are rejected when the constraint is declared: unknown grid names, a signal on grid 'point', an include_last that is neither a boolean nor 'auto' (shared with C04: R04.8, simulated Stage.subject_to)")
def r20_10(ctx):
    from .c04 import r04_8
    r04_8(ctx)
