"""C06 -- the time grid is the declared partition of [t0, t0+T].

Decided: endpoints and normalisation of every grid class, the integrator grid (M equal steps,
last point kept once), min/max bounds emitted by every grid class for the intervals its spacing
makes extreme and placed by every method for every k, the localisation chain, DT/DT_control from
grid differences, and step-length provenance (no T/N shortcut outside the grid classes).
Not decided: geometric ratio / density equidistribution numerics, strict monotonicity.
"""
import ast

from ..core import rule
from ..model import AnalysisError
from ..norm import Norm, expected
from ..poly import Poly
from ..paths import must_on_all_paths, walk_no_nested, describe_exit, poly_guard, Walker
from ..loops import loop_context, loop_var
from ..effects import is_call_to

LEVEL = "other"

N = Poly.atom("N")


def reads_min_max(node):
    names = {ast.unparse(a) for a in ast.walk(node) if isinstance(a, ast.Attribute)}
    return "self.min" in names and "self.max" in names


def is_bound_yield(n):
    return isinstance(n, ast.Yield) and n.value is not None and reads_min_max(n.value)


def grid_classes(prog):
    return [c for c in prog.subclasses("Grid") if c not in ("Grid", "FixedGrid")]


# which interval(s) must carry the bound, by the spacing each class declares (confirmed by reading
# `normalized`): all intervals equal -> k=0 suffices; monotone growth -> first and last; otherwise every k.
EXTREME = {
    "UniformGrid": [("k=0", Poly.const(0))],
    "GeometricGrid": [("k=0", Poly.const(0)), ("k=N-1", N - 1)],
    "FreeGrid": [("any k", None)],
    "FunctionGrid": [("any k", None)],
    "DensityGrid": [("any k", None)],
    "DenseEdgesGrid": [("any k", None)],
}


def must_yield_bounds(ctx, cname, f, kval, truth, depth=0):
    """Does every non-raising path of bounds_T (for the given k and flags) yield a row reading self.min and self.max?"""
    prog = ctx.prog
    sc = ctx.scope(f)
    kname = f.params[3] if len(f.params) > 3 else "k"
    bind = {}
    if kval is not None:
        bind[kname] = kval
    n = Norm(sc, bind=bind)
    trivial = {"(self.max == inf)": False, "(inf == self.max)": False}

    # trivial bounds (min==0 and max==inf) are assumed false: a bound has been declared
    truth = dict(truth)
    for txt in ("self.min==0 and self.max==inf", "self.max==inf and self.min==0"):
        truth[n.key(ast.parse(txt, mode="eval").body)] = False

    def guard(test):
        return poly_guard(test, n, truth)

    def inline(call):
        # Base.bounds_T(self, ...) delegations
        if isinstance(call.func, ast.Attribute) and call.func.attr == "bounds_T" and ast.unparse(call.func.value) in prog.classes and depth < 3:
            g = prog.resolve(ast.unparse(call.func.value), "bounds_T")
            if g is not None:
                return g.node.body
        return None

    ok, bad = must_on_all_paths(f.node.body, is_bound_yield, guard_fn=guard, inline=None)
    return ok, bad


@rule("R06.1", min_instances=10, desc="endpoints: every grid starts at t0 and ends at t0+T; normalised grids start at 0 and end at 1")
def r06_1(ctx):
    prog = ctx.prog
    f = prog.own_method("Grid", "__call__")
    n = ctx.norm(f)
    rets = [r for r in walk_no_nested(f.node) if isinstance(r, ast.Return) and r.value is not None]
    ok = False
    found = ""
    for r in rets:
        found = ast.unparse(r.value)
        c = r.value
        if isinstance(c, ast.Call) and ast.unparse(c.func).endswith("linspace") and len(c.args) == 3:
            t0, T, NN = f.params[1], f.params[2], f.params[3]
            ok = n.poly(c.args[0]) == Poly.atom(t0) and n.poly(c.args[1]) == Poly.atom(t0) + Poly.atom(T) and n.poly(c.args[2]) == Poly.atom(NN) + 1
    ctx.check(ok, "Grid.__call__", detail="uniform grid endpoints", expected="linspace(t0, t0+T, N+1)", found=found, fi=f, sample={"grid": found})
    for cname in grid_classes(prog):
        c = prog.cls(cname)
        if "__call__" in c.methods:
            g = c.methods["__call__"]
            ng = ctx.norm(g)
            t0, T, NN = g.params[1], g.params[2], g.params[3]
            rets = [r for r in walk_no_nested(g.node) if isinstance(r, ast.Return) and r.value is not None]
            want = expected("t0 + hcat(self.normalized(N))*T", t0=t0, T=T, N=NN)
            ok = bool(rets) and all(ng.poly(r.value) == want for r in rets)
            ctx.check(ok, "%s.__call__" % cname, detail="grid is not t0 + normalized*T", expected=want,
                      found="; ".join(str(ng.poly(r.value)) for r in rets), fi=g, sample={"grid": str(want)})
    # normalized(): first element 0, last element 1
    u = prog.own_method("UniformGrid", "normalized")
    nu = ctx.norm(u)
    rets = [r for r in walk_no_nested(u.node) if isinstance(r, ast.Return) and r.value is not None]
    ok = False
    for r in rets:
        v = r.value
        if isinstance(v, ast.Call) and isinstance(v.func, ast.Name) and v.func.id == "list" and v.args:
            v = v.args[0]
        if isinstance(v, ast.Call) and ast.unparse(v.func).endswith("linspace") and len(v.args) == 3:
            ok = nu.poly(v.args[0]) == Poly.const(0) and nu.poly(v.args[1]) == Poly.const(1) and nu.poly(v.args[2]) == Poly.atom(u.params[1]) + 1
    ctx.check(ok, "UniformGrid.normalized", detail="not linspace(0,1,N+1)", expected="linspace(0, 1, N+1)",
              found="; ".join(ast.unparse(r.value) for r in rets), fi=u)
    g = prog.own_method("GeometricGrid", "normalized")
    check_geometric_normalized(ctx, g)
    d = prog.own_method("DensityGrid", "normalized")
    check_density_normalized(ctx, d)
    fg = prog.own_method("FunctionGrid", "normalized")
    rets = [r for r in walk_no_nested(fg.node) if isinstance(r, ast.Return) and r.value is not None]
    ok = bool(rets) and all(ast.unparse(r.value) == "self.normalized_fun(%s)" % fg.params[1] for r in rets)
    ctx.check(ok, "FunctionGrid.normalized", detail="user function not used as is", expected="self.normalized_fun(N)",
              found="; ".join(ast.unparse(r.value) for r in rets), fi=fg)


def sym_rational(v, env):
    """exact value (Fraction) of a simulated arithmetic expression over named tokens; None if it contains anything else"""
    from fractions import Fraction
    from ..layout import Sym
    if isinstance(v, bool):
        return None
    if isinstance(v, int):
        return Fraction(v)
    if isinstance(v, float):
        return Fraction(v).limit_denominator(10 ** 9)
    if isinstance(v, Sym):
        if v.op in env:
            return env[v.op]
        if v.op == "binop":
            a, b = sym_rational(v.args[1], env), sym_rational(v.args[2], env)
            if a is None or b is None:
                return None
            o = v.args[0]
            if o == "Add": return a + b
            if o == "Sub": return a - b
            if o == "Mult": return a * b
            if o == "Div": return a / b if b != 0 else None
            if o == "Pow" and b.denominator == 1: return a ** int(b)
        if v.op == "unop" and v.args and v.args[0] == "USub":
            a = sym_rational(v.args[1], env)
            return -a if a is not None else None
    return None


def check_geometric_normalized(ctx, g):
    """GeometricGrid.normalized is *run* for N = 1..4 with the growth factor as a token g; the returned points must be the cumulative
    sums of 1, g, g^2, .. divided by the total, as rational functions of g (compared exactly at 12 rational values of g: more than
    the degree of the cross-multiplied identity) - whatever loop, comprehension or itertools pipeline computes them."""
    from fractions import Fraction
    from ..sim import Sim, fresh_obj
    from ..layout import Sym, LayoutUnknown
    P = ctx.prog
    points = [Fraction(a, b) for a, b in ((2, 1), (3, 1), (1, 2), (5, 3), (7, 2), (1, 3), (4, 1), (9, 5), (2, 3), (11, 4), (6, 5), (13, 7))]
    verdict = {"first": True, "count": True, "last": True, "ratio": True}
    found = []
    for N in (1, 2, 3, 4):
        try:
            out = Sim(P, hooks={".growth_factor": lambda s_, r, a, k, n: Sym("g")}).call(g, [fresh_obj("self"), N], {})
        except LayoutUnknown as e:
            raise AnalysisError("GeometricGrid.normalized could not be simulated: %s" % e)
        if not isinstance(out, (list, tuple)):
            raise AnalysisError("GeometricGrid.normalized: simulated result is not a list")
        out = list(out)
        if len(out) != N + 1:
            verdict["count"] = False
            found.append("N=%d: %d points" % (N, len(out)))
            continue
        for gv in points:
            vals = [sym_rational(v, {"g": gv}) for v in out]
            if any(v is None for v in vals):
                raise AnalysisError("GeometricGrid.normalized: a returned point is not an arithmetic expression of the growth factor")
            total = sum(gv ** j for j in range(N))
            want = [sum(gv ** j for j in range(i)) / total for i in range(N + 1)]
            if vals[0] != 0:
                verdict["first"] = False
            if vals[-1] != 1:
                verdict["last"] = False
            if vals != want:
                verdict["ratio"] = False
                found.append("N=%d g=%s: %s" % (N, gv, [str(v) for v in vals]))
                break
    # the normalised grid is a function of N and the constructor's configuration only: nothing is remembered between calls (a cache
    # keyed by N alone, shared through the class, hands one grid's points to another grid with a different growth factor)
    for cname in sorted(ctx.prog.subclasses("Grid")):
        nm = ctx.prog.cls(cname).methods.get("normalized")
        if nm is None:
            continue
        me = nm.params[0]
        stores = [x for x in ast.walk(nm.node) if isinstance(x, (ast.Attribute, ast.Subscript)) and isinstance(x.ctx, (ast.Store, ast.Del)) and ast.unparse(x).startswith(me + ".")]
        muts = [c for c in ast.walk(nm.node) if isinstance(c, ast.Call) and isinstance(c.func, ast.Attribute) and ast.unparse(c.func.value).startswith(me + ".")
                and c.func.attr in ("append", "extend", "update", "setdefault", "pop", "clear", "insert", "__setitem__")]
        # a memo kept on the instance (created by its constructor) is private to one configuration: allowed
        per_instance = set()
        for k in ctx.prog.mro(cname):
            ini = k.methods.get("__init__")
            if ini is not None:
                per_instance |= {t.attr for st in ast.walk(ini.node) if isinstance(st, ast.Assign) for t in st.targets if isinstance(t, ast.Attribute) and ast.unparse(t.value) == ini.params[0]}
        root_attr = lambda x: ast.unparse(x).split(".")[1].split("[")[0].split("(")[0]
        stores = [x for x in stores if root_attr(x) not in per_instance]
        muts = [c for c in muts if root_attr(c.func.value) not in per_instance]
        ctx.check(not stores and not muts, "%s.normalized keeps no state between calls" % cname, detail="normalised grid remembered across calls / instances (stale points for another configuration)",
                  expected="no write to self.* in normalized() other than to a memo the constructor created for this instance", found="; ".join(ast.unparse(x)[:60] for x in stores + muts), fi=nm)
    ctx.check(verdict["first"], "GeometricGrid.normalized starts at 0", detail="first normalised point is not 0", expected="0", found="; ".join(found[:2]), fi=g)
    ctx.check(verdict["count"], "GeometricGrid.normalized accumulates N interval lengths", detail="grid is not the cumulative sum of N intervals", expected="N+1 points", found="; ".join(found[:2]), fi=g)
    ctx.check(verdict["last"], "GeometricGrid.normalized ends at 1", detail="points are not divided by the last point", expected="1", found="; ".join(found[:2]), fi=g)
    ctx.check(verdict["ratio"] and verdict["count"], "GeometricGrid.normalized constant ratio", detail="consecutive intervals not in constant ratio growth_factor(N)",
              expected="point i = (1 + g + .. + g^(i-1)) / (1 + g + .. + g^(N-1))", found="; ".join(found[:2]), fi=g)
    gf = ctx.prog.own_method("GeometricGrid", "growth_factor")
    ngf = ctx.norm(gf)
    rets = [r for r in walk_no_nested(gf.node) if isinstance(r, ast.Return)]
    texts = [str(ngf.poly(r.value)) for r in rets]
    want_nl = str(Norm(None).poly(ast.parse("self._growth_factor**(1.0/(N-1))", mode="eval").body)).replace("N", gf.params[1])
    okf = len(rets) == 2 and want_nl in texts and "self._growth_factor" in texts
    ctx.check(okf, "GeometricGrid.growth_factor", detail="ratio does not make last = growth_factor * first (non-local) / growth_factor (local)",
              expected="growth**(1/(N-1)) when not local and N>1, else growth", found=texts, fi=gf)


def check_density_normalized(ctx, d):
    name = None
    rets = [r for r in walk_no_nested(d.node) if isinstance(r, ast.Return) and r.value is not None and isinstance(r.value, ast.Name)]
    for r in rets:
        name = r.value.id
    init = [s for s in walk_no_nested(d.node) if isinstance(s, ast.Assign) and isinstance(s.targets[0], ast.Name) and s.targets[0].id == name]
    ok0 = bool(init) and isinstance(init[0].value, ast.List) and len(init[0].value.elts) == 1 and Norm(None).poly(init[0].value.elts[0]) == Poly.const(0)
    apps = [c for c in walk_no_nested(d.node) if is_call_to(c, "append", name)]
    sc = ctx.scope(d)
    last = [c for c in apps if not sc.enclosing_loops(c)]
    ok1 = len(last) == 1 and Norm(None).poly(last[0].args[0]) == Poly.const(1) and all(sc.order[c] < sc.order[last[0]] for c in apps if c is not last[0])
    ctx.check(ok0 and ok1, "DensityGrid.normalized starts at 0 and ends at 1", detail="end points of the normalised grid",
              expected="res=[0]; ...; res.append(1.0) last", found="init=%s, final appends=%s" % (ast.unparse(init[0]) if init else None, [ast.unparse(c) for c in last]), fi=d)
    inner = [c for c in apps if sc.enclosing_loops(c)]
    okn = False
    for c in inner:
        for t, it, owner in sc.enclosing_loops(c):
            s = ast.unparse(it).replace(" ", "")
            okn = "linspace(0.0,1.0,%s+1)[1:-1]" % d.params[1] in s
    ctx.check(okn, "DensityGrid.normalized has N-1 interior points", detail="interior points", expected="linspace(0,1,N+1)[1:-1] levels",
              found="; ".join(ast.unparse(sc.enclosing_loops(c)[0][1]) for c in inner) or "none", fi=d)
    # cumulative density up to tau by the unit-interval rescaling: d/ds y = tau*density(s*tau), s in [0,1]  =>  y(1) = int_0^tau density
    n = ctx.norm(d)
    dd = [st for st in walk_no_nested(d.node) if isinstance(st, ast.Assign) and isinstance(st.value, ast.Dict) and any(isinstance(k, ast.Constant) and k.value == "ode" for k in st.value.keys)]
    okd = len(dd) == 1
    found = ""
    if okd:
        ent = {k.value: v for k, v in zip(dd[0].value.keys, dd[0].value.values) if isinstance(k, ast.Constant)}
        pn = ent.get("p")
        okd = pn is not None and isinstance(pn, ast.Name) and "ode" in ent and "t" in ent
        if okd:
            sname = pn.id
            fn = ([ast.unparse(c.func) for c in ast.walk(ent["ode"]) if isinstance(c, ast.Call) and ast.unparse(c.func).split(".")[-1] == "substitute"] + ["substitute"])[0]
            want = Norm(None).poly(ast.parse("%s*%s(self.density, self.t, self.t*%s)" % (sname, fn, sname), mode="eval").body)
            got = Norm(None).poly(ent["ode"])
            found = str(got)
            okd = got == want and ast.unparse(ent["t"]) == "self.t"
    ctx.check(okd, "DensityGrid.normalized integrates the density over [0, tau] by rescaling to the unit interval", detail="cumulative density of the wrong argument (grid is not the equidistribution of the declared density)",
              expected="ode = scale*substitute(density, t, t*scale), p = scale, t = self.t", found=found, fi=d, sample={"ode": found})
    ic = [c for c in walk_no_nested(d.node) if isinstance(c, ast.Call) and ast.unparse(c.func) == "integrator"]
    oki = len(ic) == 1 and len(ic[0].args) >= 5 and [ast.unparse(a) for a in ic[0].args[3:5]] == ["0", "1"] and bool(dd) and ast.unparse(ic[0].args[2]) == ast.unparse(dd[0].targets[0])
    ctx.check(oki, "DensityGrid.normalized integrates over the unit interval", detail="horizon of the cumulative-density integrator", expected="integrator(name, plugin, ode, 0, 1, opts)", found="; ".join(ast.unparse(c)[:80] for c in ic), fi=d)
    tot = [st for st in walk_no_nested(d.node) if isinstance(st, ast.Assign) and isinstance(st.targets[0], ast.Name) and "p=1" in ast.unparse(st.value).replace(" ", "") and "['xf']" in ast.unparse(st.value)]
    okt = len(tot) == 1
    roots = [c for c in walk_no_nested(d.node) if isinstance(c, ast.Call) and ast.unparse(c.func).endswith("root_scalar")]
    okr = len(roots) == 1 and bool(inner)
    if okr and okt:
        lam = roots[0].args[0] if roots[0].args else None
        kw = {k.arg: ast.unparse(k.value).replace(" ", "") for k in roots[0].keywords}
        lv = sc.enclosing_loops(roots[0])[-1][0] if sc.enclosing_loops(roots[0]) else None
        okr = isinstance(lam, ast.Lambda) and len(lam.args.args) == 1 and kw.get("bracket") == "[0,1]" and isinstance(lv, ast.Name)
        if okr:
            tau = lam.args.args[0].arg
            body = ast.unparse(lam.body).replace(" ", "")
            okr = ("p=%s)" % tau) in body and body.endswith("-%s)" % lv.id) and "x0=0" in body
            it = ast.unparse(sc.enclosing_loops(roots[0])[-1][1]).replace(" ", "")
            okr = okr and ("*%s" % tot[0].targets[0].id) in it
    ctx.check(okr and okt, "DensityGrid.normalized places node i where the cumulative density reaches i/N of the total", detail="equidistribution levels", expected="root of intg(p=tau)-v for v in linspace(0,1,N+1)[1:-1]*I, tau in [0,1]",
              found="; ".join(ast.unparse(c)[:100] for c in roots), fi=d)


@rule("R06.2", min_instances=3, desc="integrator grid: M equal steps per control interval, shared end point kept only for the last interval")
def r06_2(ctx):
    prog = ctx.prog
    f = prog.own_method("SamplingMethod", "transcribe")
    n = ctx.norm(f)
    sc = ctx.scope(f)
    apps = [c for c in walk_no_nested(f.node) if is_call_to(c, "append", "self.integrator_grid")]
    ctx.check(len(apps) == 1, "integrator_grid built once per interval", detail="integrator grid construction", expected="one append inside for k in range(N)",
              found="%d appends" % len(apps), fi=f)
    if len(apps) != 1:
        return
    a = apps[0]
    lc = loop_context(sc, n, a)
    kv = loop_var(lc, "N")
    gs = [t for t, p in sc.guards(a) if {x.id for x in ast.walk(t) if isinstance(x, ast.Name)} != {"phase"}]
    ctx.check(kv is not None and len(lc) == 1 and not gs, "integrator_grid loop", detail="not for every k in range(N)",
              expected="for k in range(self.N), unconditional", found=str(lc), fi=f, node=a)
    if kv is None:
        return
    arg = a.args[0]
    full = None
    okshape = False
    if isinstance(arg, ast.IfExp):
        body, orelse, test = arg.body, arg.orelse, arg.test
        # evaluate the test on k in range(N) for small N: cut (drop last point) iff k < N-1
        def cut_when(k, NN):
            nn = Norm(sc, bind={kv: Poly.const(k)})
            nn.bind["__N"] = Poly.const(NN)
            t = ast.parse(ast.unparse(test).replace("self.N", "__N"), mode="eval").body
            return poly_guard(t, Norm(None, bind={kv: Poly.const(k), "__N": Poly.const(NN)}))
        table_ok = True
        for NN in (1, 2, 3, 5):
            for k in range(NN):
                v = cut_when(k, NN)
                if v is None:
                    table_ok = False
                else:
                    is_slice_body = isinstance(body, ast.Subscript) and ast.unparse(body.slice) == ":-1"
                    cut = v if is_slice_body else (not v)
                    if cut != (k < NN - 1):
                        table_ok = False
        parts = [body, orelse]
        sl = [p for p in parts if isinstance(p, ast.Subscript) and ast.unparse(p.slice) == ":-1"]
        fl = [p for p in parts if not (isinstance(p, ast.Subscript) and ast.unparse(p.slice) == ":-1")]
        okshape = table_ok and len(sl) == 1 and len(fl) == 1 and n.key(sl[0].value) == n.key(fl[0])
        full = fl[0] if fl else None
    ctx.check(okshape, "integrator_grid keeps the shared point only for the last interval", detail="end point handling",
              expected="t_local[:-1] if k<N-1 else t_local", found=ast.unparse(arg), fi=f, node=a)
    if full is not None:
        p = n.single(full)
        ok = False
        if p is not None and p.kind == "call" and p.parts["func"].endswith("linspace") and len(p.parts["args"]) == 3:
            want = [str(expected("self.control_grid[k]", k=kv)), str(expected("self.control_grid[k+1]", k=kv)), str(expected("self.M+1"))]
            ok = p.parts["args"] == want
        ctx.check(ok, "integrator_grid splits [t_k, t_k+1] into M equal steps", detail="integrator points",
                  expected="linspace(control_grid[k], control_grid[k+1], M+1)", found=n.key(full), fi=f, node=a, sample={"t_local": n.key(full)})




@rule("R06.3", min_instances=4, desc="every concrete method places the grid's coupling/bound constraints for every control interval k")
def r06_3(ctx):
    check_coupling(ctx)


def check_coupling(ctx, only_localisable=False):
    prog = ctx.prog
    for cname in prog.subclasses("SamplingMethod"):
        if cname == "SamplingMethod":
            continue
        if only_localisable:
            # a method that asserts an unlocalised grid has no local time variables to couple
            av = prog.method(cname, "add_variables")
            if any(isinstance(a, ast.Assert) and "localize_t0" in ast.unparse(a.test) and "localize_T" in ast.unparse(a.test) for a in walk_no_nested(av.node)):
                ctx.ok("%s rejects localised grids (nothing to couple)" % cname, fi=av)
                continue
        f = prog.method(cname, "add_constraints")
        n = ctx.norm(f)
        sc = ctx.scope(f)
        calls = [c for c in walk_no_nested(f.node) if is_call_to(c, "add_coupling_constraints", "self")]
        good = []
        for c in calls:
            lc = loop_context(sc, n, c)
            kv = loop_var(lc, "N")
            if kv is not None and len(lc) == 1 and not sc.guards(c) and len(c.args) == 3 and n.poly(c.args[2]) == Poly.atom(kv):
                good.append(c)
        ctx.check(bool(good), "%s.add_constraints" % cname, detail="grid coupling constraints never placed",
                  expected="self.add_coupling_constraints(stage, opti, k) for every k in range(N), unconditionally",
                  found=("%d call(s), none in an unconditional k-loop" % len(calls)) if calls else "no call (min/max interval bounds and localisation constraints of the grid are not in the NLP)",
                  fi=f, node=(calls[0] if calls else f.node))
    g = prog.own_method("SamplingMethod", "add_coupling_constraints")
    ng = ctx.norm(g)
    scg = ctx.scope(g)
    loops = [l for l in walk_no_nested(g.node) if isinstance(l, ast.For)]
    ok = False
    found = ""
    const_table = {}
    for l in loops:
        it = l.iter
        found = ast.unparse(it)
        if is_call_to(it, "bounds_T", "self.time_grid") and len(it.args) == 5:
            want = ["self.T_local", "self.t0_local", g.params[3], "self.T", "self.N"]
            ok = [ng.key(a) for a in it.args] == want
            subj = [c for c in ast.walk(l) if is_call_to(c, "subject_to")]
            tgt = l.target.elts[0].id if isinstance(l.target, ast.Tuple) else None
            ok = ok and len(subj) == 1 and subj[0].args and ast.unparse(subj[0].args[0]) == tgt
            # which rows reach the solver, as a table over (row has no decision variable, row is a constant):
            # rows with decision variables and CONSTANT rows must be handed over (a false constant bound raises there);
            # only a row that depends on parameters alone may be skipped (Opti cannot take it)
            from ..ceval import ceval, Unknown

            def placed(env):
                def run(stmts):
                    for st in stmts:
                        if isinstance(st, ast.If):
                            r = run(st.body if ceval(st.test, env, None) else st.orelse)
                            if r is not None:
                                return r
                        elif isinstance(st, ast.Continue):
                            return False
                        elif any(x is subj[0] for x in ast.walk(st)):
                            return True
                    return None
                return bool(run(l.body))
            atoms_p = sorted({ast.unparse(x) for x in ast.walk(l) if is_call_to(x, "is_parametric") and x.args and ast.unparse(x.args[0]) == tgt})
            atoms_k = sorted({ast.unparse(x) for x in ast.walk(l) if is_call_to(x, "is_constant")})
            table = {}
            try:
                for pv, kv_ in ((False, False), (True, False), (True, True)):
                    env = {a: pv for a in atoms_p}
                    env.update({a: kv_ for a in atoms_k})
                    table[(pv, kv_)] = placed(env) if subj else None
            except Unknown as e:
                table = {"unknown": str(e)}
            ok = ok and table.get((False, False)) is True
            const_table = table
    ctx.check(ok, "add_coupling_constraints forwards every bounds_T row", detail="rows of bounds_T dropped or mis-addressed",
              expected="for c,kw in self.time_grid.bounds_T(self.T_local, self.t0_local, k, self.T, self.N): opti.subject_to(c) unless parametric", found=found, fi=g)
    ctx.check(const_table.get((True, True)) is True, "add_coupling_constraints: a numeric min/max bound is still checked", detail="with a numeric (or parametric) horizon the grid's min/max bound has no decision variable and is dropped without being checked: a violated bound is accepted silently",
              expected="rows without decision variables that are constants reach opti.subject_to (which raises for a false constant); only rows that depend on parameters alone are skipped",
              found="placed(no decision variable, constant) = %s" % const_table, fi=g, sample={"table": str(const_table)})


@rule("R06.4", min_instances=9, desc="every grid class emits a min/max bound on the interval(s) its spacing makes extreme, for every localisation mode")
def r06_4(ctx):
    prog = ctx.prog
    for cname in grid_classes(prog):
        if cname not in EXTREME:
            ctx.fail("%s.bounds_T" % cname, detail="unknown grid class", expected="a grid class listed in the extreme-interval table", found=cname)
            continue
        f = prog.method(cname, "bounds_T")
        for label, kval in EXTREME[cname]:
            modes = [("localize_T", {"self.localize_T": True}), ("global T", {"self.localize_T": False})]
            if cname == "FreeGrid":
                modes = [("localize_T", {"self.localize_T": True})]
            for mlabel, truth in modes:
                ok, bad = must_yield_bounds(ctx, cname, f, kval, truth)
                ctx.check(ok, "%s.bounds_T %s %s" % (cname, label, mlabel), detail="min/max never enforced",
                          expected="a yielded row reading self.min and self.max on every path (for %s)" % label,
                          found="%s has %s without such a row" % (f.qualname, "; ".join(describe_exit(e) for e in bad[:2]) or "a path"),
                          fi=f, sample={"k": label, "mode": mlabel})
    # the only caller supplies k in range(N): the alias -1 is never passed
    g = prog.own_method("SamplingMethod", "add_coupling_constraints")
    callers = []
    for cname in prog.subclasses("SamplingMethod"):
        for f in prog.cls(cname).methods.values():
            n = None
            for c in walk_no_nested(f.node):
                if is_call_to(c, "add_coupling_constraints"):
                    n = n or ctx.norm(f)
                    lc = loop_context(ctx.scope(f), n, c)
                    kv = loop_var(lc, "N")
                    callers.append((f, c, kv is not None and len(c.args) == 3 and n.poly(c.args[2]) == Poly.atom(kv)))
    ctx.check(bool(callers) and all(ok for _, _, ok in callers), "bounds_T receives k in range(N)", detail="k domain",
              expected="k is the loop variable of for k in range(self.N)", found="; ".join("%s:%s" % (f.qualname, ast.unparse(c)) for f, c, ok in callers if not ok), fi=g)


@rule("R06.5", min_instances=8, desc="localisation chain: t0_local[k]+T_k == t0_local[k+1], T_k from T_local or the normalised grid, control grid assembled from the same quantities")
def r06_5(ctx):
    prog = ctx.prog
    f = prog.own_method("FixedGrid", "bounds_T")
    n = ctx.norm(f)
    sc = ctx.scope(f)
    T_local, t0_local, k, T, NN = f.params[1:6]
    ys = [y for y in walk_no_nested(f.node) if isinstance(y, ast.Yield) and y.value is not None]
    chain = []
    for y in ys:
        v = y.value
        row = v.elts[0] if isinstance(v, ast.Tuple) and v.elts else v
        if isinstance(row, ast.Compare) and len(row.ops) == 1 and isinstance(row.ops[0], ast.Eq):
            chain.append((y, row))
    ok = False
    found = ""
    for y, row in chain:
        # under localize_T: Tk = T_local[k]; else T*(normalized[k+1]-normalized[k]) -- Tk is assigned on both branches
        lhs, rhs = row.left, row.comparators[0]
        found = ast.unparse(row)
        nn = Norm(None)
        want_l = nn.poly(ast.parse("%s[%s]+Tk" % (t0_local, k), mode="eval").body)
        want_r = nn.poly(ast.parse("%s[%s+1]" % (t0_local, k), mode="eval").body)
        got_l, got_r = Norm(None).poly(lhs), Norm(None).poly(rhs)
        tk = [a for a in (got_l.atoms() | got_r.atoms()) if not a.startswith(t0_local)]
        if len(tk) == 1:
            want_l = Poly.atom("%s[%s]" % (t0_local, k)) + Poly.atom(tk[0])
            if (got_l == want_l and got_r == want_r) or (got_r == want_l and got_l == want_r):
                gs = sc.guards(y)
                gtxt = " and ".join(("" if p else "not ") + ast.unparse(t) for t, p in gs)
                ok = "self.localize_t0" in gtxt
                # definitions of Tk
                defs = [d for d in sc.defs.get(tk[0], []) if d.kind == "assign"]
                vals = {}
                for d in defs:
                    g2 = sc.guards(d.stmt)
                    pol = [p for t, p in g2 if ast.unparse(t) == "self.localize_T"]
                    if pol:
                        vals[pol[0]] = Norm(None).poly(d.value)
                want_T = Norm(None).poly(ast.parse("%s[%s]" % (T_local, k), mode="eval").body)
                want_F = Norm(None).poly(ast.parse("%s*(self.normalized(%s)[%s+1]-self.normalized(%s)[%s])" % (T, NN, k, NN, k), mode="eval").body)
                ctx.check(vals.get(True) == want_T, "FixedGrid.bounds_T interval length (localize_T)", detail="T_k under localize_T",
                          expected=want_T, found=vals.get(True), fi=f)
                ctx.check(vals.get(False) == want_F, "FixedGrid.bounds_T interval length (global T)", detail="T_k from the normalised grid",
                          expected=want_F, found=vals.get(False), fi=f)
    ctx.check(ok, "FixedGrid.bounds_T chain t0_local[k]+T_k == t0_local[k+1]", detail="localised start times not chained",
              expected="yield t0_local[k]+Tk == t0_local[k+1] under self.localize_t0", found=found or "no equality row", fi=f)
    # constrain_T between consecutive local interval lengths
    cs = [c for c in walk_no_nested(f.node) if is_call_to(c, "constrain_T", "self")]
    okc = False
    for c in cs:
        if len(c.args) == 3:
            okc = [Norm(None).key(a) for a in c.args] == ["%s[%s]" % (T_local, k), "%s[1 + %s]" % (T_local, k), NN]
            gs = sc.guards(c)
            # placed for every k with k+1 < N
            okc = okc and any("localize_T" in ast.unparse(t) and p for t, p in gs)
            tests = [t for t, p in gs if p and "localize_T" not in ast.unparse(t)]
            full = True
            for NNv in (1, 2, 4):
                for kk in range(NNv):
                    vals = [poly_guard(t, Norm(None, bind={k: Poly.const(kk), NN: Poly.const(NNv)})) for t in tests]
                    placed = all(v is True for v in vals)
                    if placed != (kk + 1 < NNv):
                        full = False
            okc = okc and full
    ctx.check(okc, "FixedGrid.bounds_T ties consecutive local interval lengths", detail="constrain_T(T_local[k], T_local[k+1]) not placed for every k<N-1",
              expected="constrain_T(T_local[k], T_local[k+1], N) iff k+1<N under localize_T", found="; ".join(ast.unparse(c) for c in cs) or "no call", fi=f)
    u = prog.own_method("UniformGrid", "constrain_T")
    r = [x for x in walk_no_nested(u.node) if isinstance(x, ast.Return) and x.value is not None]
    oku = bool(r) and isinstance(r[0].value, ast.Tuple) and Norm(None).key(r[0].value.elts[0]) == Norm(None).key(ast.parse("%s==%s" % (u.params[1], u.params[2]), mode="eval").body)
    ctx.check(oku, "UniformGrid.constrain_T", detail="equal local intervals", expected="Tnext == T", found=ast.unparse(r[0].value) if r else "none", fi=u)
    gm = prog.own_method("GeometricGrid", "constrain_T")
    r = [x for x in walk_no_nested(gm.node) if isinstance(x, ast.Return) and x.value is not None]
    okg = bool(r) and isinstance(r[0].value, ast.Tuple) and Norm(None).key(r[0].value.elts[0]) == Norm(None).key(
        ast.parse("%s*self.growth_factor(%s)==%s" % (gm.params[1], gm.params[3], gm.params[2]), mode="eval").body)
    ctx.check(okg, "GeometricGrid.constrain_T", detail="local intervals in constant ratio", expected="T*growth_factor(N) == Tnext",
              found=ast.unparse(r[0].value) if r else "none", fi=gm)
    # first local quantities
    g0 = prog.own_method("FixedGrid", "get_t0_local")
    w = [x for x in walk_no_nested(g0.node) if isinstance(x, ast.Return) and x.value is not None and ast.unparse(x.value) == g0.params[3]]
    ok0 = bool(w) and any(ast.unparse(t).replace(" ", "") == "%s==0" % g0.params[2] and p for t, p in ctx.scope(g0).guards(w[0]))
    ctx.check(ok0, "FixedGrid.get_t0_local: first local start time is t0", detail="t0_local[0]", expected="return t0 when k==0",
              found="; ".join(ast.unparse(x) for x in walk_no_nested(g0.node) if isinstance(x, ast.Return)), fi=g0)
    # control-grid assembly: add_variables_V_control_finalize run by the simulator (rkverif/sim.py) for the three localisation modes
    from ..sim import Sim, fresh_obj
    from ..layout import Sym, Obj, freeze, LayoutUnknown
    from .layout_rules import sym_poly
    fin = prog.own_method("SamplingMethod", "add_variables_V_control_finalize")
    NN = 3
    for cond, (lt0, lT) in (("self.time_grid.localize_t0", (True, False)), ("not self.time_grid.localize_t0 and self.time_grid.localize_T", (False, True)),
                            ("not self.time_grid.localize_t0 and not self.time_grid.localize_T", (False, False))):
        t0, T = Sym("t0"), Sym("T")
        Tl = [Sym("T_local", q) for q in range(NN)]
        t0l = [Sym("t0_local", q) for q in range(NN)] + [None]
        tg = fresh_obj("time_grid", localize_t0=lt0, localize_T=lT)
        me = fresh_obj("self", N=NN, t0=t0, T=T, T_local=list(Tl), t0_local=list(t0l), time_grid=tg, V_control_plus=[])
        stage = fresh_obj("stage", variables={"control+": [], "control": [], "": []})
        fin_args = []
        hooks = {"hcat": lambda s_, r, a, k, n: ("hcat", list(a[0])) if a and isinstance(a[0], list) else NotImplemented,
                 "self.time_grid": lambda s_, r, a, k, n: ("grid", [freeze(x) for x in a]),
                 ".bounds_finalize": lambda s_, r, a, k, n: fin_args.append(list(a))}
        try:
            sim_ = Sim(prog, hooks=hooks)
            sim_.cfg.update({"localize_t0": lt0, "localize_T": lT})
            sim_.call(fin, [me, stage, Sym("opti")], {})
        except LayoutUnknown as e:
            raise AnalysisError("add_variables_V_control_finalize could not be simulated (%s): %s" % (cond, e))
        cg = me.attrs.get("control_grid")
        if lt0:
            got_l = me.attrs["t0_local"]
            ok = isinstance(cg, tuple) and cg[0] == "hcat" and len(cg[1]) == NN + 1 and [freeze(x) for x in cg[1][:NN]] == [freeze(x) for x in t0l[:NN]] and cg[1][NN] is got_l[NN] and got_l[NN] is not None
            ctx.check(ok, "control grid assembly (%s)" % cond, detail="control grid source", expected="hcat(self.t0_local) with a fresh variable for the final node", found=str(cg)[:120], fi=fin)
        elif lT:
            ok = isinstance(cg, tuple) and cg[0] == "hcat" and len(cg[1]) == NN + 1
            if ok:
                acc = sym_poly(freeze(t0))
                for q in range(NN + 1):
                    if sym_poly(freeze(cg[1][q])) != acc:
                        ok = False
                    if q < NN:
                        acc = acc + sym_poly(freeze(Tl[q]))
            ctx.check(ok, "control grid assembly (%s)" % cond, detail="cumulative sum of local interval lengths", expected="hcat([t0, t0+T_0, t0+T_0+T_1, ...])", found=str(cg)[:160], fi=fin)
        else:
            ok = cg == ("grid", [freeze(t0), freeze(T), NN])
            ctx.check(ok, "control grid assembly (%s)" % cond, detail="control grid source", expected="self.time_grid(self.t0, self.T, self.N)", found=str(cg)[:120], fi=fin)
        okb = len(fin_args) == 1 and len(fin_args[0]) == 5 and freeze(fin_args[0][0]) == freeze(Sym("opti")) and fin_args[0][1] is cg and fin_args[0][2] is me.attrs["t0_local"] \
            and sym_poly(freeze(fin_args[0][3])) == sym_poly(freeze(t0)) + sym_poly(freeze(T)) and fin_args[0][4] == NN
        ctx.check(okb, "bounds_finalize receives tf = t0+T (%s)" % cond, detail="final-time closure", expected="bounds_finalize(opti, control_grid, t0_local, t0+T, N), unconditional",
                  found=str(fin_args)[:160] or "no call", fi=fin)
    fb = prog.own_method("FreeGrid", "bounds_finalize")
    sub = [c for c in walk_no_nested(fb.node) if is_call_to(c, "subject_to")]
    okf = len(sub) == 1 and sub[0].args and Norm(None).key(sub[0].args[0]) == Norm(None).key(ast.parse("%s[-1]==%s" % (fb.params[2], fb.params[4]), mode="eval").body) \
        and not ctx.scope(fb).guards(sub[0])
    ctx.check(okf, "FreeGrid.bounds_finalize closes the grid at tf", detail="free grid end point", expected="opti.subject_to(control_grid[-1]==tf)",
              found="; ".join(ast.unparse(c) for c in sub) or "no constraint", fi=fb)


@rule("R06.6", min_instances=11, desc="DT_control and DT derive from differences of the control / integrator grid of the addressed interval (alias -1 and node N take the last interval); decided as a table over k (and i)")
def r06_6(ctx):
    from ..ceval import select_return, Unknown
    prog = ctx.prog
    f = prog.own_method("SamplingMethod", "get_DT_control_at")
    k = f.params[1]
    sc = ctx.scope(f)
    n = ctx.norm(f)
    NN = 4
    for kv in (-1, 0, 1, NN - 1, NN):
        try:
            r = select_return(f.node, {k: kv, "self.N": NN}, sc)
            got = n.poly(r.value) if r is not None and r.value is not None else None
        except Unknown as e:
            got = "unknown (%s)" % e
        want = expected("self.control_grid[-1]-self.control_grid[-2]") if kv in (-1, NN) else expected("self.control_grid[k+1]-self.control_grid[k]", k=k)
        ctx.check(got == want, "get_DT_control_at(k=%s, N=%d)" % (kv, NN), detail="control-interval length of another interval", expected=want, found=got, fi=f, sample={"k": kv, "value": str(got)})
    g = prog.own_method("SamplingMethod", "get_DT_at")
    k, i = g.params[1], g.params[2]
    ng = ctx.norm(g)
    sg = ctx.scope(g)
    numels = {ast.unparse(c) for c in walk_no_nested(g.node) if isinstance(c, ast.Call) and isinstance(c.func, ast.Attribute) and c.func.attr == "numel"}
    for npts in (1, 2, 3):
        for iv in range(npts):
            env = {i: iv}
            for t in numels:
                env[t] = npts
            try:
                r = select_return(g.node, env, sg)
                got = ng.poly(r.value) if r is not None and r.value is not None else None
            except Unknown as e:
                got = "unknown (%s)" % e
            if iv < npts - 1:
                want = expected("self.integrator_grid[k][i+1]-self.integrator_grid[k][i]", k=k, i=i)
            else:
                want = expected("self.integrator_grid[k+1][0]-self.integrator_grid[k][i]", k=k, i=i)
            ctx.check(got == want, "get_DT_at(k, i=%d) with %d points in the interval" % (iv, npts), detail="integrator step length of another step", expected=want, found=got, fi=g)


def tn_shortcuts(prog, ctx, funcs):
    hits = []
    for f in funcs:
        n = ctx.norm(f)
        for node in walk_no_nested(f.node):
            if isinstance(node, ast.BinOp) and isinstance(node.op, ast.Div):
                p = n.poly(node)
                for m in p.t:
                    d = dict(m)
                    has_T = any(k.endswith(".T") and e >= 1 for k, e in d.items())
                    has_N = any(k.endswith(".N") and e <= -1 for k, e in d.items())
                    if has_T and has_N:
                        hits.append((f, node, str(p)))
                        break
    # keep outermost only
    return hits


@rule("R06.7", min_instances=2, desc="step-length provenance: no step length is computed as T/N outside the grid classes (uniform-grid shortcut)")
def r06_7(ctx):
    prog = ctx.prog
    funcs = []
    for cname in prog.subclasses("DirectMethod"):
        for f in prog.cls(cname).methods.values():
            funcs.append(f)
    for f in prog.cls("Stage").methods.values():
        funcs.append(f)
    hits = tn_shortcuts(prog, ctx, funcs)
    seen = set()
    for f, node, text in hits:
        if (f.qualname, text) in seen:
            continue
        seen.add((f.qualname, text))
        ctx.fail("%s uses T/N" % f.qualname, detail="uniform-grid step length", expected="step lengths from control_grid differences", found=text, fi=f, node=node)
    ctx.ok("no T/N step length in %d method/stage functions" % len(funcs))
    # embedded positive example: the detector must recognise the shortcut
    import types
    src = "class X:\n def f(self):\n  tscale = self.T / self.N / self.M\n  return tscale\n"
    tree = ast.parse(src)
    from ..model import FunctionInfo
    fake_mod = types.SimpleNamespace(relpath="<embedded>", name="embedded")
    fi = FunctionInfo(tree.body[0].body[0], fake_mod)
    from ..norm import Scope
    nn = Norm(Scope(fi))
    found = False
    for node in ast.walk(fi.node):
        if isinstance(node, ast.BinOp) and isinstance(node.op, ast.Div):
            p = nn.poly(node)
            for m in p.t:
                d = dict(m)
                if any(k.endswith(".T") and e >= 1 for k, e in d.items()) and any(k.endswith(".N") and e <= -1 for k, e in d.items()):
                    found = True
    ctx.check(found, "embedded positive example (self.T/self.N/self.M) recognised", detail="detector blind", expected="match", found="no match")


MUTABLE_CTORS = ("dict", "list", "set", "defaultdict", "OrderedDict", "HashDict", "HashList", "HashOrderedDict")


@rule("R06.8", min_instances=8, desc="grid objects are independent: no class-level mutable state in the grid classes (caches belong to the instance)")
def r06_8(ctx):
    prog = ctx.prog
    for cname in prog.subclasses("Grid"):
        c = prog.cls(cname)
        bad = []
        for st in c.node.body:
            if isinstance(st, (ast.Assign, ast.AnnAssign)):
                v = st.value
                if isinstance(v, (ast.Dict, ast.List, ast.Set, ast.DictComp, ast.ListComp)) or (isinstance(v, ast.Call) and ast.unparse(v.func).split(".")[-1] in MUTABLE_CTORS):
                    bad.append(st)
        f = c.methods.get("__init__") or prog.resolve(cname, "__init__")
        ctx.check(not bad, "%s has no class-level mutable attribute" % cname, detail="state shared between all grids of this class (one grid's cached nodes served to another)",
                  expected="mutable containers are created per instance in __init__", found="; ".join(ast.unparse(b) for b in bad), fi=f, node=(bad[0] if bad else None))
    d = prog.own_method("DensityGrid", "__init__")
    ok = any(isinstance(st, ast.Assign) and ast.unparse(st.targets[0]) == "self.cache" and isinstance(st.value, ast.Dict) and not st.value.keys for st in walk_no_nested(d.node))
    ctx.check(ok, "DensityGrid caches its normalised nodes per instance", detail="cache location", expected="self.cache = {} in __init__", found="", fi=d)
    nz = prog.own_method("DensityGrid", "normalized")
    uses = [s for s in walk_no_nested(nz.node) if isinstance(s, ast.Subscript) and ast.unparse(s.value) == "self.cache"]
    ok = bool(uses) and all(ast.unparse(s.slice) == nz.params[1] for s in uses)
    ctx.check(ok, "DensityGrid cache is keyed by N on the instance", detail="cache key", expected="self.cache[N]", found="; ".join(ast.unparse(s) for s in uses), fi=nz)


def bounded_quantity(y):
    """the middle expression M of a yielded row `self.min <= (M <= self.max)`"""
    v = y.value
    row = v.elts[0] if isinstance(v, ast.Tuple) and v.elts else v
    if isinstance(row, ast.Compare) and len(row.ops) == 1 and isinstance(row.comparators[0], ast.Compare) and len(row.comparators[0].ops) == 1:
        return row.comparators[0].left
    if isinstance(row, ast.Compare) and len(row.ops) == 2:
        return row.comparators[0]
    return None


@rule("R06.9", min_instances=6, desc="the quantity bounded by min/max is the length of the interval the row is emitted for (T_local[k] when localised, T*(n[k+1]-n[k]) otherwise)")
def r06_9(ctx):
    from ..ceval import ceval, Unknown
    prog = ctx.prog
    NN = 5
    for cname in ("UniformGrid", "GeometricGrid", "FreeGrid"):
        f = prog.own_method(cname, "bounds_T")
        sc = ctx.scope(f)
        T_local, t0_local, k, T, Np = f.params[1:6]
        for y in [y for y in walk_no_nested(f.node) if is_bound_yield(y)]:
            m = bounded_quantity(y)
            if m is None:
                ctx.fail("%s.bounds_T bound row" % cname, detail="unrecognised bound row", expected="self.min <= (length <= self.max)", found=ast.unparse(y.value)[:80], fi=f, node=y)
                continue
            # for which k is this row emitted?
            ks = []
            for kv in range(NN):
                try:
                    if all(bool(ceval(t, {k: kv, Np: NN}, sc)) == p for t, p in sc.guard_conjuncts(y) if k in {x.id for x in ast.walk(t) if isinstance(x, ast.Name)}):
                        ks.append(kv)
                except Unknown:
                    ks.append(kv)
            n = Norm(sc, no_expand=(T_local, T, Np, k))
            pm = n.poly(m)
            good = True
            why = ""
            for kv in ks:
                # accepted forms for interval kv
                acc = [expected("%s[%d]" % (T_local, kv)), expected("%s[%s]" % (T_local, k))]
                if kv == NN - 1:
                    acc.append(expected("%s[-1]" % T_local))
                nrm = "self.normalized(%s)" % Np
                forms = ["%s*(%s[%d]-%s[%d])" % (T, nrm, kv + 1, nrm, kv), "%s*(%s[%s+1]-%s[%s])" % (T, nrm, k, nrm, k)]
                if kv == 0:
                    forms.append("%s*%s[1]" % (T, nrm))
                if kv == NN - 1:
                    forms += ["%s*(%s[-1]-%s[-2])" % (T, nrm, nrm), "%s*(1-%s[-2])" % (T, nrm)]
                acc += [expected(t) for t in forms]
                if cname == "UniformGrid":
                    acc.append(expected("%s/%s" % (T, Np)))
                if pm not in acc:
                    good = False
                    why = "for k=%d" % kv
            ctx.check(good and bool(ks), "%s.bounds_T bounds the length of its own interval (%s)" % (cname, ast.unparse(m)[:40]), detail="min/max applied to the length of another interval",
                      expected="T_local[k] or T*(n[k+1]-n[k]) for the k at which the row is emitted", found="%s %s" % (pm, why), fi=f, node=y, sample={"bounded": str(pm), "k": ks})


@rule("R06.10", min_instances=20, desc="sampled time vectors agree with the grid: the grid walkers return the grid's own times (one per sampled point), root times = integrator point + step*tau, refined times = running step start + equidistant local time of the step (shared with C07 / C08)")
def r06_10(ctx):
    from .c07 import r07_2, r07_6
    from .c08 import r08_2
    r07_2(ctx)
    r07_6(ctx)
    r08_2(ctx)
