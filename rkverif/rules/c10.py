"""C10 -- the solver starts from exactly the user's initial guess.

Decided: no unresolved name on the set_initial paths, the phase-2 order of guess application,
column/node coherence of array guesses, effect purity of set_initial (no variables, constraints or
objective terms), storage and re-application in Stage.set_initial with T/t0 aliasing in every
sibling, lock-step deferred guesses.
Not decided: read-back equality in numbers, helper-state values.
"""
import ast

from ..core import rule
from ..model import AnalysisError
from ..norm import Norm, expected, value_cases
from ..poly import Poly
from ..paths import walk_no_nested, must_on_all_paths, Walker, const_guard
from ..effects import is_call_to, writes_in
from ..names import unresolved_names
from ..loops import loop_context, loop_var

LEVEL = "other"

SIBLINGS = ["DirectMethod", "SamplingMethod", "DirectCollocation", "SplineMethod"]


def set_initial_closure(ctx):
    prog = ctx.prog
    entries = [prog.own_method("Stage", "set_initial")] + [prog.own_method(c, "set_initial") for c in SIBLINGS] + \
        [prog.own_method("OptiWrapper", "set_initial")]
    seen = {}
    for cname in ["MultipleShooting", "SingleShooting", "DirectCollocation", "SplineMethod", "DirectMethod"]:
        s, _ = prog.reachable([prog.method(cname, "set_initial")], concrete=cname, max_depth=5)
        seen.update(s)
    for e in entries:
        seen[e.qualname] = e
    return seen


@rule("R10.1", min_instances=8, desc="no unresolved global name in any function reachable from set_initial (every method)")
def r10_1(ctx):
    seen = set_initial_closure(ctx)
    for q, f in sorted(seen.items()):
        if f.module.relpath.startswith("rockit/splines/") or f.module.relpath.endswith("casadi_helpers.py") and f.name in ("interface_simulink",):
            continue
        un = unresolved_names(f)
        ctx.check(not un, "names resolved in %s" % q, detail="; ".join(n for n, _ in un) if un else "",
                  expected="every loaded global name is imported or defined", found="unbound: " + ", ".join("%s (line %d)" % (n, x.lineno) for n, x in un),
                  fi=f, node=(un[0][1] if un else None))


@rule("R10.2", min_instances=5, desc="phase-2 order: guesses applied, guessed T/t0 read back, local-grid guesses derived from the guessed grid, guesses re-applied (time is right only now), then parameter values")
def r10_2(ctx):
    P = ctx.prog
    f = P.own_method("SamplingMethod", "transcribe")
    sc = ctx.scope(f)
    n = ctx.norm(f)
    # the statements executed in phase 2, whatever way the phases are told apart
    from ..ceval import run_path, Unknown as _Unknown
    ph = f.params[2] if len(f.params) > 2 else "phase"
    try:
        done2, _ex = run_path(f.node.body, {ph: 2}, None, skip_raising_guards=True)
    except _Unknown as e:
        raise AnalysisError("SamplingMethod.transcribe: phase 2 path not decidable: %s" % e)
    if not done2:
        raise AnalysisError("SamplingMethod.transcribe: phase==2 branch not found")
    b = ast.If(test=ast.Constant(value=True), body=list(done2), orelse=[])
    events = []

    def collect(stmts, host, subst):
        for st in stmts:
            for c in walk_no_nested(st):
                if is_call_to(c, "set_initial", "self") and len(c.args) == 3:
                    events.append(("set_initial", subst.get(ast.unparse(c.args[2]), ast.unparse(c.args[2])), c))
                elif is_call_to(c, "set_parameter", "self"):
                    events.append(("set_parameter", "", c))
                elif isinstance(c, ast.Call) and ast.unparse(c.func) == "opti.debug.value" and len(c.args) == 2 and ast.unparse(c.args[1]) == "opti.initial()":
                    events.append(("read", ast.unparse(c.args[0]), c))
                elif isinstance(c, ast.Call) and ast.unparse(c.func) == "self.time_grid" and len(c.args) == 3:
                    events.append(("grid", ", ".join(ast.unparse(a) for a in c.args), c))
                elif isinstance(c, ast.Call) and isinstance(c.func, ast.Attribute) and ast.unparse(c.func.value) == "self" and c.func.attr not in ("set_initial", "set_parameter"):
                    # a helper of the method that applies a guess table (apply_initial): its own sequence, with its table parameter bound
                    g = P.resolve("SamplingMethod", c.func.attr)
                    if g is not None and g is not host and any(is_call_to(x, "set_initial", "self") for x in walk_no_nested(g.node)):
                        bind = {p_: ast.unparse(a) for p_, a in zip(g.params[1:], c.args)}
                        ctx.scope(g)
                        hosts.append(g)
                        collect(g.node.body, g, bind)
    hosts = [f]
    collect(b.body, f, {})
    f_seq = hosts[-1]
    sc = ctx.scope(f_seq)
    b = f_seq.node if f_seq is not f else b
    seq = [(k, v) for k, v, _ in events]
    want = [("set_initial", "stage._initial"), ("read", "self.T"), ("read", "self.t0"), ("grid", "t0_init, T_init, self.N"),
            ("set_initial", "initial"), ("set_initial", "stage._initial"), ("set_parameter", "")]
    ctx.check(seq == want, "phase-2 sequence of SamplingMethod.transcribe", detail="order of guess application", expected=want, found=seq, fi=f, sample={"sequence": seq})
    # T_init / t0_init names feed the grid
    for nm, src in (("T_init", "self.T"), ("t0_init", "self.t0")):
        d = [x for x in sc.defs.get(nm, []) if x.kind == "assign"]
        ok = len(d) == 1 and ast.unparse(d[0].value) == "opti.debug.value(%s, opti.initial())" % src
        ctx.check(ok, "%s is the guessed value of %s" % (nm, src), detail="guessed horizon", expected="opti.debug.value(%s, opti.initial())" % src, found=ast.unparse(d[0].value) if d else None, fi=f)
    # local-grid guesses
    stores = [st for st in walk_no_nested(b) if isinstance(st, ast.Assign) and isinstance(st.targets[0], ast.Subscript) and ast.unparse(st.targets[0].value) == "initial"]
    t0s = [st for st in stores if "t0_local" in ast.unparse(st.targets[0].slice)]
    Ts = [st for st in stores if "T_local" in ast.unparse(st.targets[0].slice)]
    okt0 = len(t0s) == 2
    for st in t0s:
        idx = st.targets[0].slice
        ok1 = isinstance(idx, ast.Subscript) and isinstance(st.value, ast.Subscript) and ast.unparse(st.value.value) == "control_grid_init" and \
            Norm(None).poly(idx.slice) == Norm(None).poly(st.value.slice)
        gs = [ast.unparse(t) for t, p in sc.guards(st) if p]
        okt0 = okt0 and ok1 and "self.time_grid.localize_t0" in gs
    ctx.check(okt0, "local start-time guesses: t0_local[k] starts at the guessed grid node k", detail="guess of a local start time taken from another node", expected="initial[self.t0_local[k]] = control_grid_init[k]",
              found="; ".join(ast.unparse(s) for s in t0s), fi=f)
    okT = len(Ts) == 1
    if okT:
        st = Ts[0]
        idx = st.targets[0].slice
        loops = sc.enclosing_loops(st)
        kv = loops[-1][0].id if loops and isinstance(loops[-1][0], ast.Name) else None
        okT = isinstance(idx, ast.Subscript) and kv is not None and Norm(None).poly(idx.slice) == Poly.atom(kv) and \
            Norm(None).poly(st.value) == expected("control_grid_init[k+1]-control_grid_init[k]", k=kv) and "self.time_grid.localize_T" in [ast.unparse(t) for t, p in sc.guards(st) if p]
        if okT:
            it = loops[-1][1]
            okT = is_call_to(it, "range") and len(it.args) == 2 and ast.unparse(it.args[1]) == "self.N" and "FreeGrid" in ast.unparse(it.args[0])
    ctx.check(okT, "local interval-length guesses: T_local[k] starts at the guessed length of interval k", detail="guess of a local interval length taken from another interval",
              expected="initial[self.T_local[k]] = control_grid_init[k+1]-control_grid_init[k], k from (0 for FreeGrid, else 1) to N-1", found="; ".join(ast.unparse(s) for s in Ts), fi=f,
              sample={"T_local": "; ".join(ast.unparse(s) for s in Ts)})


def node_loop_ok(sc, n, node):
    """node sits in `for k in list(range(self.N))+[-1]` -> loop variable name, else None"""
    from ..loops import loop_context
    lc = loop_context(sc, n, node)
    for li in reversed(lc):
        if li.kind in ("N+final", "final+N") and isinstance(li.var, str):
            return li.var
    return None


def node_loop_kind(sc, n, node):
    from ..loops import loop_context
    for li in reversed(loop_context(sc, n, node)):
        if li.kind in ("N+final", "final+N"):
            return li.kind
    return None


@rule("R10.3", min_instances=8, desc="column/node coherence: column k of an array (or of the sampled expression) is given to the quantity at node/interval k; DirectCollocation repeats column k over the points of interval k")
def r10_3(ctx):
    P = ctx.prog
    for cname in ("SamplingMethod", "DirectCollocation"):
        f = P.own_method(cname, "set_initial")
        sc = ctx.scope(f)
        n = ctx.norm(f)
        sets = [c for c in walk_no_nested(f.node) if is_call_to(c, "set_initial", "opti") and len(c.args) >= 2 and isinstance(c.args[0], ast.Name) and ast.unparse(c.args[1]) == "value_k"]
        ctx.check(len(sets) == 1, "%s.set_initial per-node application" % cname, detail="per-node guess application", expected="one opti.set_initial(target, value_k) in the node loop", found=str(len(sets)), fi=f)
        for c in sets:
            kv = node_loop_ok(sc, n, c)
            ok = kv is not None
            tname = c.args[0].id
            td = [d for d in sc.defs.get(tname, []) if d.kind == "assign" and sc.order[d.stmt] < sc.order[c] and sc.enclosing_loops(d.stmt) and sc.enclosing_loops(d.stmt)[-1][2] is sc.enclosing_loops(c)[-1][2]]
            ok = ok and len(td) == 1 and Norm(None).key(td[0].value) == "self.eval_at_control(stage,var,%s)" % kv
            # value_k = value[:,k] if <the array has N or N+1 columns> else value   (canonical form of default-then-override)
            kn = Norm(sc, no_expand=(tname, "value")).key
            cases = value_cases(sc, "value_k", key=kn, within=sc.enclosing_loops(c)[-1][2])
            want = Norm(None).key(ast.parse("target.numel()*(self.N)==value.numel() or target.numel()*(self.N+1)==value.numel()", mode="eval").body)
            want = want.replace("target", tname)
            # with the exclusion of a value that has the symbol's own shape (D93, R10.12)
            want2 = Norm(None).key(ast.parse("value.shape != target.shape and (target.numel()*(self.N)==value.numel() or target.numel()*(self.N+1)==value.numel())", mode="eval").body).replace("target", tname)
            seen = {}
            for cd, leaf in cases:
                own = [c_ for c_ in cd if c_[0] in (want, want2)]
                if len(own) != 1:
                    ok = False
                    continue
                seen[own[0][1]] = Norm(None).key(leaf)
            ok = ok and seen == {True: "value[:,%s]" % kv, False: "value"}
            ctx.check(ok, "%s.set_initial: target at node k receives column k" % cname, detail="array guess column given to another node/interval",
                      expected="for k in range(N)+[-1]: target = eval_at_control(stage, var, k); value_k = value[:,k] when the array has N or N+1 columns", found=ast.unparse(c), fi=f, node=c)
        # expression guesses are sampled on the same node sequence
        # the sampling of an expression guess may live in set_initial itself or in a private helper it calls
        hosts = [f] + [g for c in walk_no_nested(f.node) if isinstance(c, ast.Call) and isinstance(c.func, ast.Attribute) and ast.unparse(c.func.value) == "self"
                       and c.func.attr.startswith("_") for g in [P.resolve(cname, c.func.attr)] if g is not None]
        hc = []
        for host in hosts:
            ev_name = None
            hc += [c for c in walk_no_nested(host.node) if isinstance(c, ast.Call) and ast.unparse(c.func) in ("ca.hcat", "hcat") and c.args and isinstance(c.args[0], ast.ListComp)
                   and is_call_to(c.args[0].elt, "eval_at_control", "self") and len(c.args[0].elt.args) == 3 and isinstance(c.args[0].elt.args[1], ast.Name)
                   and c.args[0].elt.args[1].id not in ("var",)]
        okh = len(hc) >= 1
        for c in hc:
            lc0 = c.args[0]
            from ..loops import classify_iter
            kind, _ = classify_iter(lc0.generators[0].iter, n)
            kv = lc0.generators[0].target.id
            okh = okh and ast.unparse(lc0.elt.args[2]) == kv and (kind in ("N+final", "N") or isinstance(lc0.generators[0].iter, ast.Name))
        ctx.check(okh, "%s.set_initial samples an expression guess on the node sequence" % cname, detail="expression guess sampled on other nodes", expected="hcat([eval_at_control(stage, expr, k) for k in range(N)+[-1]])",
                  found="; ".join(ast.unparse(c)[:80] for c in hc), fi=f)
    # DirectCollocation: repetition of columns over integrator points and roots
    f = P.own_method("DirectCollocation", "set_initial")
    sc = ctx.scope(f)
    want = {"value_integrator": "horzcat(ca.kron(value[:, :self.N], DM.ones(1, self.M)), value[:, -1])",
            "value_integrator_root": "ca.kron(value[:, :self.N], DM.ones(1, self.M * self.degree))"}
    for nm, text in want.items():
        ds = [d for d in sc.defs.get(nm, []) if d.kind == "assign" and "kron" in ast.unparse(d.value)]
        # the column-repeating form may be one branch of a conditional expression (per-column array vs constant guess)
        leaf = ds[0].value if ds else None
        while isinstance(leaf, ast.IfExp):
            leaf = leaf.body if "kron" in ast.unparse(leaf.body) else leaf.orelse
        got = Norm(None).key(leaf).replace("ca.", "") if leaf is not None else None
        ctx.check(len(ds) == 1 and got == Norm(None).key(ast.parse(text, mode="eval").body).replace("ca.", ""), "DirectCollocation.set_initial %s" % nm,
                  detail="columns tiled instead of repeated per interval (or final node missing)", expected=text, found=got, fi=f, sample={nm: got})
    tg = {"target_integrator": ("eval_at_integrator(stage, var, k, i)", ["N", "M"], True), "target_integrator_root": ("eval_at_integrator_root(stage, var, k, i, j)", ["N", "M", "d"], False)}
    n = ctx.norm(f)
    from ..loops import classify_iter
    for nm, (elt, kinds, final) in tg.items():
        ds = [d for d in sc.defs.get(nm, []) if d.kind == "assign"]
        ok = len(ds) == 1
        if ok:
            v = ds[0].value
            inner = v.args[0] if isinstance(v, ast.Call) and v.args else None
            lc0 = inner.left if isinstance(inner, ast.BinOp) else inner
            ok = isinstance(lc0, ast.ListComp) and [classify_iter(g.iter, n)[0] for g in lc0.generators] == kinds and ast.unparse(lc0.elt) == "self." + elt
            if final:
                ok = ok and isinstance(inner, ast.BinOp) and ast.unparse(inner.right) == "[self.eval_at_control(stage, var, -1)]"
        ctx.check(ok, "DirectCollocation.set_initial %s enumerates points in (k, i%s) order%s" % (nm, ", j" if "root" in nm else "", " + final node" if final else ""),
                  detail="targets enumerated in another order than the values", expected="[%s for k in range(N) for i in range(M)%s]%s" % (elt, " for j in range(degree)" if "root" in nm else "", " + [final]" if final else ""),
                  found=ast.unparse(ds[0].value)[:120] if ds else None, fi=f)


FORBIDDEN = ("variable", "parameter", "subject_to", "add_objective", "minimize", "clear_objective")


@rule("R10.4", min_instances=8, desc="effect purity: nothing reachable from set_initial creates variables/parameters or touches constraints or objective")
def r10_4(ctx):
    seen = set_initial_closure(ctx)
    for q, f in sorted(seen.items()):
        if f.cls is None or f.cls.name not in ctx.prog.subclasses("DirectMethod") + ["OptiWrapper"]:
            continue
        if f.name not in ("set_initial",) and not f.name.startswith(("eval", "_eval", "get_")):
            continue
        bad = [c for c in walk_no_nested(f.node) if isinstance(c, ast.Call) and isinstance(c.func, ast.Attribute) and c.func.attr in FORBIDDEN]
        ctx.check(not bad, "%s has no effect on variables, constraints or objective" % q, detail="setting a guess changes the NLP", expected="no call of %s" % (FORBIDDEN,), found="; ".join(ast.unparse(b)[:50] for b in bad[:2]), fi=f,
                  node=(bad[0] if bad else None))


@rule("R10.5", min_instances=6, desc="Stage.set_initial records the guess on every path (last call wins), re-applies the table when transcribed; T/t0 redirected in every sibling")
def r10_5(ctx):
    P = ctx.prog
    f = P.own_method("Stage", "set_initial")
    from ..model import nested_functions
    acts = list(nested_functions(f).values())
    ctx.check(len(acts) == 1, "Stage.set_initial has one per-symbol action", detail="structure", expected="one closure", found=str(len(acts)), fi=f)
    for g in acts:
        def writes(nd):
            return isinstance(nd, ast.Assign) and any(isinstance(t, ast.Subscript) and ast.unparse(t.value) == "self._initial" and ast.unparse(t.slice) == g.params[0] for t in nd.targets)
        ok, bad = must_on_all_paths(g.node.body, writes)
        ctx.check(ok, "Stage.set_initial stores the guess under its symbol on every non-raising path", detail="guess lost on some path", expected="self._initial[var] = value", found="missing", fi=g)
        mv = [c for c in walk_no_nested(g.node) if is_call_to(c, "move_to_end", "self._initial")]
        sc = ctx.scope(g)
        ok = len(mv) == 1 and [ast.unparse(t) for t, p in sc.guards(mv[0]) if p] == ["priority"] and ast.unparse(mv[0].args[0]) == g.params[0]
        # (whether the entry moves to the front or to the end is not decided: since the guess table is applied twice on
        # every path -- R10.2 / R10.10 -- time-dependent guesses see the final horizon either way)
        ctx.check(ok, "Stage.set_initial orders prioritised guesses first", detail="ordering", expected="if priority: self._initial.move_to_end(var, last=False)", found="; ".join(ast.unparse(m) for m in mv), fi=g)
    sc = ctx.scope(f)
    wt = [c for c in walk_no_nested(f.node) if isinstance(c, ast.Call) and isinstance(c.func, ast.Attribute) and c.func.attr in ("set_initial", "apply_initial")
          and isinstance(c.func.value, ast.Attribute) and c.func.value.attr == "_method"]
    nf = ctx.norm(f)
    from ..paths import guard_conjuncts_set
    # nested under the test or behind the guard clause `if not (..): return`: the same condition either way
    ok = len(wt) == 1 and guard_conjuncts_set(sc.path_guards(wt[0])) == guard_conjuncts_set([("self.master is not None and self.master.is_transcribed", True)])
    fa = [c for c in walk_no_nested(f.node) if is_call_to(c, "for_all_primitives")]
    ok = ok and len(fa) == 1 and sc.order[fa[0]] < sc.order[wt[0]]
    ctx.check(ok, "Stage.set_initial re-applies the guesses to a live transcription after recording them", detail="guess given after transcription not applied (or applied before it is recorded)",
              expected="record; then if transcribed: self._method.set_initial(...)", found="", fi=f)
    from .c11 import check_T_aliasing
    check_T_aliasing(ctx)


@rule("R10.6", min_instances=4, desc="deferred guesses: key and value are queued together and every queued pair is applied when the placeholders are resolved")
def r10_6(ctx):
    P = ctx.prog
    f = P.own_method("OptiWrapper", "set_initial")
    sc = ctx.scope(f)
    ka = [c for c in walk_no_nested(f.node) if is_call_to(c, "append", "self.initial_keys")]
    va = [c for c in walk_no_nested(f.node) if is_call_to(c, "append", "self.initial_values")]
    ok = len(ka) == 1 and len(va) == 1 and sc.block_of[sc.stmt_of(ka[0])] == sc.block_of[sc.stmt_of(va[0])] and ast.unparse(ka[0].args[0]) == f.params[1] and ast.unparse(va[0].args[0]) == f.params[2]
    ctx.check(ok, "OptiWrapper.set_initial queues key and value in lock-step", detail="deferred guess lists out of step", expected="initial_keys.append(key); initial_values.append(value) in the same branch", found="", fi=f)
    direct = [c for c in walk_no_nested(f.node) if isinstance(c, ast.Call) and ast.unparse(c.func) == "Opti.set_initial"]
    ok = len(direct) == 1 and [ast.unparse(a) for a in direct[0].args[1:]] == [f.params[1], f.params[2]]
    ctx.check(ok, "OptiWrapper.set_initial applies a resolvable guess at once, unchanged", detail="direct guess", expected="Opti.set_initial(self, key, value)", found="; ".join(ast.unparse(c) for c in direct), fi=f)
    g = P.own_method("OptiWrapper", "transcribe_placeholders")
    scg = ctx.scope(g)
    loops = [l for l in walk_no_nested(g.node) if isinstance(l, ast.For) and "self.initial_values" in ast.unparse(l.iter)]
    ok = len(loops) == 1
    if ok:
        l = loops[0]
        it = l.iter
        # zip(.., <resolved keys> = res[len(constraints)+1:], self.initial_values): the columns are recognised by what they iterate over
        ng_ = ctx.norm(g)
        kv = vv = None
        ok = is_call_to(it, "zip") and isinstance(l.target, ast.Tuple) and len(l.target.elts) == len(it.args) and all(isinstance(e, ast.Name) for e in l.target.elts)
        if ok:
            for e, a in zip(l.target.elts, it.args):
                if ast.unparse(a) == "self.initial_values":
                    vv = e.id
                elif isinstance(a, ast.Subscript) and isinstance(a.slice, ast.Slice) and a.slice.upper is None and a.slice.step is None and a.slice.lower is not None and isinstance(a.value, ast.Name) \
                        and is_call_to(scg.reaching(a.value.id, a.value), "placeholders") and ng_.poly(a.slice.lower) == expected("len(self.constraints)+1"):
                    kv = e.id
                elif ast.unparse(a) != "self.initial_keys":
                    ok = False
        sets = [c for c in ast.walk(l) if isinstance(c, ast.Call) and ast.unparse(c.func) == "Opti.set_initial"]
        ok = ok and kv is not None and vv is not None and len(sets) == 1 and [ast.unparse(a) for a in sets[0].args[1:]] == [kv, vv] and not scg.guards(l)
    ctx.check(ok, "every deferred guess is applied to its resolved key", detail="deferred guesses dropped or mis-paired", expected="for _, k, v in zip(initial_keys, res[n_constr+1:], initial_values): Opti.set_initial(self, k, v)", found="", fi=g)
    init = P.own_method("OptiWrapper", "__init__")
    asg = {ast.unparse(st.targets[0]): ast.unparse(st.value) for st in walk_no_nested(init.node) if isinstance(st, ast.Assign)}
    ctx.check(asg.get("self.initial_keys") == "[]" and asg.get("self.initial_values") == "[]", "deferred guess queues start empty", detail="queues", expected="[] / []", found="", fi=init)


@rule("R10.7", min_instances=4, desc="get_ranges_dict gives every algebraic symbol the consecutive rows it occupies in the stacked vector (vector-valued symbols shift their successors) - decided on simulated calls with symbols of 2, 1, 3 entries, one symbol, no symbol")
def r10_7(ctx):
    from ..sim import Sim, fresh_obj
    from ..layout import Sym, LayoutUnknown, freeze
    P = ctx.prog
    f = P.function("casadi_helpers", "get_ranges_dict")
    for sizes in ((2, 1, 3), (1,), (3, 3), ()):
        syms = [fresh_obj("e%d" % i, n=k) for i, k in enumerate(sizes)]
        hooks = {".nnz": lambda s_, r, a, k, n: r.attrs["n"], ".numel": lambda s_, r, a, k, n: r.attrs["n"], "HashDict": lambda s_, r, a, k, n: {}, "HashOrderedDict": lambda s_, r, a, k, n: {},
                 "OrderedDict": lambda s_, r, a, k, n: {}}
        try:
            out = Sim(P, hooks=hooks).call(f, [syms], {})
        except LayoutUnknown as e:
            raise AnalysisError("get_ranges_dict could not be simulated: %s" % e)
        want, off = [], 0
        for sy, k in zip(syms, sizes):
            want.append(list(range(off, off + k)))
            off += k
        got = None
        if isinstance(out, dict):
            got = [list(out.get(freeze(sy))) if isinstance(out.get(freeze(sy)), (list, range, tuple)) else out.get(freeze(sy)) for sy in syms]
            if len(out) != len(syms):
                got = "%d entries for %d symbols" % (len(out), len(syms))
        ctx.check(got == want, "get_ranges_dict%s: every symbol gets its own consecutive rows" % (sizes,), detail="rows of a later symbol overlap / are shifted (guess for one algebraic lands in another)",
                  expected="rows %s" % want, found="rows %s" % (got,), fi=f, sample={"sizes": list(sizes)})


@rule("R10.8", min_instances=3, desc="the final-node pass of the per-node application never overrides an interval quantity: for symbols that do not exist at the final node the evaluator aliases k=-1 to the last interval, so that pass must come first (or be skipped)")
def r10_8(ctx):
    """Necessary condition for 'expressions of time evaluated at ... interval start times for controls':
    eval_at_control(stage, u, -1) is U[-1] = U[N-1] (slot table of _eval_at_control), and the value handed to it in the
    final-node pass is the column of the final node.  If that pass runs after k = N-1 the last interval's control /
    per-interval variable starts at the guess evaluated at tf."""
    P = ctx.prog
    # 1. the aliasing fact, read from the evaluator's own slot table
    e = P.own_method("SamplingMethod", "_eval_at_control")
    k = e.params[3]
    from .. import slots as S
    calls = S.expr_apply_calls(e)
    alias = {}
    if len(calls) == 1:
        sce = ctx.scope(e)
        from ..ceval import ceval, Unknown, specialise
        for kw in calls[0].keywords:
            if kw.arg not in ("u", "p_control", "v_control"):
                continue
            env = {k: -1, "len(self.U)": 3, "self.N": 3}
            try:
                v = specialise(kw.value, env, sce)
                idx = v.slice if isinstance(v, ast.Subscript) else (v.args[-1] if isinstance(v, ast.Call) and v.args else None)
                # Python's own indexing: element -1 of a per-interval list is the entry of interval N-1
                alias[kw.arg] = (ast.unparse(v), ceval(idx, env, sce) if idx is not None else None)
            except Unknown:
                alias[kw.arg] = None
    aliased = sorted(s for s, t in alias.items() if t is not None and t[1] in (-1, 2))
    ctx.check("u" in alias, "_eval_at_control resolves the control at the final-node alias", detail="slot table", expected="u = self.U[-1] for k == -1", found=str(alias), fi=e, sample={"alias": alias})
    if "u" not in aliased:
        # the evaluator no longer aliases the final node to the last interval: nothing to order
        ctx.ok("final-node alias not present for controls", fi=e)
        return
    for cname in ("SamplingMethod", "DirectCollocation"):
        f = P.own_method(cname, "set_initial")
        sc = ctx.scope(f)
        n = ctx.norm(f)
        sets = [c for c in walk_no_nested(f.node) if is_call_to(c, "set_initial", "opti") and len(c.args) >= 2 and isinstance(c.args[0], ast.Name) and ast.unparse(c.args[1]) == "value_k"]
        for c in sets:
            kind = node_loop_kind(sc, n, c)
            # accepted: the alias pass first; or the alias pass skipped for quantities without a final-node instance
            gs = [ast.unparse(t) for t, p in sc.path_guards(c)]
            skipped = any("-1" in g and ("include_last" in g or "states" in g or "is_valid" in g) for g in gs)
            ctx.check(kind == "final+N" or skipped, "%s.set_initial: interval quantities keep the guess of their own interval" % cname,
                      detail="the final-node pass (k=-1, aliased to the last interval for controls and per-interval variables) runs after k=N-1 and overwrites U[N-1] with the guess at tf",
                      expected="for k in [-1]+list(range(N)) (alias pass first, the interval's own column wins)", found="loop order %s" % kind, fi=f, node=c,
                      sample={"method": cname, "order": kind})


@rule("R10.9", min_instances=2, desc="guesses before and after the first transcription agree: the promoted horizon starts from the user's own guess for ocp.T / ocp.t0 when one was given (R11.7, shared with C11)")
def r10_9(ctx):
    from .c11 import r11_7
    r11_7(ctx)


def _derives_local_grid_guesses(f):
    """does f assign a guess to self.T_local[..] / self.t0_local[..] (entries of a guess table)?"""
    hits = []
    for st in walk_no_nested(f.node):
        if isinstance(st, ast.Assign) and isinstance(st.targets[0], ast.Subscript) and isinstance(st.targets[0].slice, ast.Subscript) \
                and ast.unparse(st.targets[0].slice.value) in ("self.T_local", "self.t0_local"):
            hits.append(ast.unparse(st.targets[0].slice.value))
    return sorted(set(hits))


@rule("R10.10", min_instances=3, desc="the starting values of the localised grid variables (T_local, t0_local) are derived from the guessed t0/T on every path that applies guesses to a live transcription: at transcription AND when set_initial is called afterwards")
def r10_10(ctx):
    """Necessary for 'guesses given before the first transcription or after it produce the same starting point' under
    localize_t0 / localize_T / FreeGrid: the node times (hence every time-dependent guess) are functions of the local
    variables' starting values, which only the derivation step sets."""
    P = ctx.prog
    owners = [f for f in P.all_functions(include_nested=False) if f.cls is not None and f.cls.name in ("SamplingMethod",) and _derives_local_grid_guesses(f)]
    ctx.check(len(owners) == 1 and _derives_local_grid_guesses(owners[0]) == ["self.T_local", "self.t0_local"], "one place derives the local-grid guesses from the guessed horizon",
              detail="derivation of T_local / t0_local starting values", expected="initial[self.t0_local[k]] = grid[k]; initial[self.T_local[k]] = grid[k+1]-grid[k]",
              found="; ".join("%s: %s" % (f.qualname, _derives_local_grid_guesses(f)) for f in owners), fi=(owners[0] if owners else P.own_method("SamplingMethod", "transcribe")))
    if len(owners) != 1:
        return
    owner = owners[0]
    entries = {"transcription (phase 2)": P.own_method("SamplingMethod", "transcribe"), "Stage.set_initial on a transcribed OCP": P.own_method("Stage", "set_initial")}
    for label, e in entries.items():
        # calls through the method object: self._method.<m>(...) resolves to <m> of every concrete method class
        seen = {e.qualname: e}
        work = [e]
        while work:
            f = work.pop()
            for c in walk_no_nested(f.node):
                if not (isinstance(c, ast.Call) and isinstance(c.func, ast.Attribute)):
                    continue
                recv = ast.unparse(c.func.value)
                cands = []
                if recv in ("self._method", "stage._method", "self.master._method") or (isinstance(c.func.value, ast.Attribute) and c.func.value.attr == "_method" and isinstance(c.func.value.value, ast.Name)):
                    for cn in ["DirectMethod"] + P.subclasses("DirectMethod"):
                        g = P.resolve(cn, c.func.attr)
                        if g is not None:
                            cands.append(g)
                elif recv == "self" and f.cls is not None:
                    for cn in [f.cls.name] + P.subclasses(f.cls.name):
                        g = P.resolve(cn, c.func.attr)
                        if g is not None:
                            cands.append(g)
                for g in cands:
                    if g.qualname not in seen:
                        seen[g.qualname] = g
                        work.append(g)
        ctx.check(owner.qualname in seen, "local-grid guesses are derived on the path: %s" % label,
                  detail="a horizon guess given after transcription leaves T_local / t0_local at their old starting values (node times and time-dependent guesses disagree with the guessed horizon)",
                  expected="%s reachable from %s" % (owner.qualname, e.qualname), found="reaches: " + ", ".join(sorted(q for q in seen if "set_initial" in q or "initial" in q.lower())[:8]), fi=e,
                  sample={"entry": e.qualname, "owner": owner.qualname})


@rule("R10.11", min_instances=1, desc="a guess given after transcription reaches every stage whose own guesses depend on it: Stage.set_initial re-applies the guess tables of the whole stage tree, as transcription does")
def r10_11(ctx):
    """`Tv = ocp.variable(); s = ocp.stage(T=Tv)`: the stage's time-dependent guesses are numbers computed from the guessed Tv.
    At transcription every stage applies its table; a later ocp.set_initial(Tv, 8) must therefore re-apply the tables of the
    stages too, not only the table of the stage it was called on."""
    P = ctx.prog
    f = P.own_method("Stage", "set_initial")
    sc = ctx.scope(f)
    wt = [c for c in walk_no_nested(f.node) if isinstance(c, ast.Call) and isinstance(c.func, ast.Attribute) and c.func.attr in ("apply_initial", "set_initial")
          and ast.unparse(c.func.value).endswith("._method")]
    ok = False
    found = "; ".join(ast.unparse(c)[:90] for c in wt)
    for c in wt:
        loops = sc.enclosing_loops(c)
        if loops and is_call_to(loops[-1][1], "iter_stages") and ctx.norm(f).key(loops[-1][1].func.value) == "self.master":
            lv = ast.unparse(loops[-1][0])
            ok = ast.unparse(c.func.value) == "%s._method" % lv and [ast.unparse(a) for a in c.args][:1] == ["%s._augmented" % lv] and ast.unparse(c.args[-1]) == "%s._initial" % lv \
                and any(k.arg == "include_self" and ast.unparse(k.value) == "True" for k in loops[-1][1].keywords)
    ctx.check(ok, "Stage.set_initial re-applies the guess tables of every stage of the tree", detail="only the table of the stage that was called is re-applied: stages whose guesses depend on the guessed symbol (an OCP-level variable used as their horizon) keep the numbers computed before",
              expected="for s in self.master.iter_stages(include_self=True): s._method.apply_initial(s._augmented, self.master._method, s._initial)", found=found, fi=f)


@rule("R10.12", min_instances=4, desc="a guess that has the shape of the symbol itself is a constant, whatever N is: every test that recognises an n-by-N / n-by-(N+1) array of per-interval guesses by its number of entries excludes values of the symbol's own shape")
def r10_12(ctx):
    """D93: with N = 1 a 1-by-m guess for a 1-by-m state satisfies numel(target)*N == numel(value); it was split into columns and each
    entry broadcast over the whole symbol ([1,2,3] became [1,1,1] at node 0 and [3,3,3] at node 1)."""
    P = ctx.prog
    n = 0
    for cname in ("SamplingMethod", "DirectCollocation"):
        f = P.own_method(cname, "set_initial")
        class _T:
            def __init__(self, test):
                self.test = test
        tests = [x for x in ast.walk(f.node) if isinstance(x, (ast.If, ast.IfExp))] + \
                [_T(x.value) for x in ast.walk(f.node) if isinstance(x, ast.Assign) and isinstance(x.value, (ast.BoolOp, ast.Compare))]
        for t in tests:
            txt = ast.unparse(t.test).replace(" ", "")
            if "numel()" in txt and "self.N" in txt and "value.numel()" in txt:
                n += 1
                ok = ".shape" in txt and ("value.shape!=" in txt or "!=value.shape" in txt or "notvalue.shape==" in txt)
                ctx.check(ok, "%s.set_initial: the per-interval-array test excludes a value of the symbol's own shape" % cname,
                          detail="N = 1: a constant guess for a row-vector symbol is taken for an array with one column per interval and broadcast entry by entry",
                          expected="value.shape != target.shape and (numel(target)*N == numel(value) or numel(target)*(N+1) == numel(value))", found=ast.unparse(t.test)[:120], fi=f)
    if n < 4:
        raise AnalysisError("R10.12: only %d per-interval-array tests found in the set_initial functions (expected 4)" % n)


@rule("R10.13", min_instances=1, desc="a guess for a grid='bspline' variable reaches its coefficients under every method that accepts such variables: a set_initial override handles `var in self.signals` (or hands the signal to the base method) instead of letting the error of the generic path be swallowed")
def r10_13(ctx):
    """D94 (known): DirectCollocation.set_initial overrides the base method without its signals branch; the generic path fails with
    'arbitrary expression' and that error is swallowed: set_initial(b, 3.0) on a variable(grid='bspline', order>=1) leaves b at 0."""
    P = ctx.prog
    base = P.own_method("SamplingMethod", "set_initial")
    if "self.signals" not in ast.unparse(base.node):
        raise AnalysisError("SamplingMethod.set_initial no longer has a branch for B-spline signals (anchor moved?)")
    for cname in sorted(P.subclasses("SamplingMethod")):
        if cname in ("SamplingMethod", "SplineMethod") or "set_initial" not in P.cls(cname).methods:
            continue
        f = P.cls(cname).methods["set_initial"]
        txt = ast.unparse(f.node)
        handles = "self.signals" in txt or "SamplingMethod.set_initial(" in txt or "super().set_initial(" in txt
        ctx.check(handles, "%s.set_initial gives the guess of a B-spline variable to its coefficients" % cname, detail="the guess of a grid='bspline' variable is dropped without a message (the variable starts at 0)",
                  expected="a branch for `var in self.signals` setting self.signals[var].coeff, or delegation to SamplingMethod.set_initial", found="no mention of self.signals in the override", fi=f)
