"""C10 -- the solver starts from exactly the user's initial guess.

Decided: no unresolved name on the set_initial paths, the phase-2 order of guess application,
column/node coherence of array guesses, effect purity of set_initial (no variables, constraints or
objective terms), storage and re-application in Stage.set_initial with T/t0 aliasing in every
sibling, lock-step deferred guesses.
Not decided: read-back equality in numbers, helper-state values.
"""
import ast

from ..core import rule
from ..model import AnalysisError
from ..norm import Norm, expected
from ..poly import Poly
from ..paths import walk_no_nested, must_on_all_paths, Walker, const_guard
from ..effects import is_call_to, writes_in
from ..names import unresolved_names
from ..loops import loop_context, loop_var

LEVEL = "other"

SIBLINGS = ["DirectMethod", "SamplingMethod", "DirectCollocation", "SplineMethod"]


def set_initial_closure(ctx):
    prog = ctx.prog
    entries = [prog.own_method("Stage", "set_initial")] + [prog.own_method(c, "set_initial") for c in SIBLINGS] + \
        [prog.own_method("OptiWrapper", "set_initial")]
    seen = {}
    for cname in ["MultipleShooting", "SingleShooting", "DirectCollocation", "SplineMethod", "DirectMethod"]:
        s, _ = prog.reachable([prog.method(cname, "set_initial")], concrete=cname, max_depth=5)
        seen.update(s)
    for e in entries:
        seen[e.qualname] = e
    return seen


@rule("R10.1", min_instances=8, desc="no unresolved global name in any function reachable from set_initial (every method)")
def r10_1(ctx):
    seen = set_initial_closure(ctx)
    for q, f in sorted(seen.items()):
        if f.module.relpath.startswith("rockit/splines/") or f.module.relpath.endswith("casadi_helpers.py") and f.name in ("interface_simulink",):
            continue
        un = unresolved_names(f)
        ctx.check(not un, "names resolved in %s" % q, detail="; ".join(n for n, _ in un) if un else "",
                  expected="every loaded global name is imported or defined", found="unbound: " + ", ".join("%s (line %d)" % (n, x.lineno) for n, x in un),
                  fi=f, node=(un[0][1] if un else None))
