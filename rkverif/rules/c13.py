"""C13 -- the transcription depends only on the final specification, not on its history.

Decided (structural, necessary): invalidate-on-edit for every public mutator, reset of the
method object before every (re-)transcription, copy discipline of the transcription entry
points, solver-setting inheritance of Stage.method(), @transcribed coverage of the query API.
Not decided: numerical equality with a freshly written OCP.
"""
import ast

from ..core import rule
from ..model import AnalysisError, nested_functions
from ..effects import writes_in, is_call_to, root_attr
from ..paths import must_on_all_paths, describe_exit, walk_no_nested, const_guard, write_implies_event
from ..norm import Norm

LEVEL = "other"

# Stage attributes that are transcription cache / tree links, not user specification
CACHE_ATTRS = {"_master", "parent", "_var_original", "_var_augmented", "_var_is_transcribed",
               "_transcribed_placeholders", "__deepcopy__"}

# Symbol factories: they record a fresh symbol in a lookup table.  The symbol is not referenced by
# the transcribed problem until another mutator (subject_to / add_objective / set_der ...), which
# invalidates, uses it; sampling an expression containing it is served from the same table on the
# original, which the deep copy re-reads at the next transcription.
FACTORY_EXEMPT = {
    ("Stage.offset", "_offsets"): "symbol factory (next/prev/offset): unused until a mutator that invalidates references it",
    ("Stage.inf_inert", "_inf_inert"): "symbol factory: unused until subject_to(grid='inf') references it",
    ("Stage.inf_der", "_inf_der"): "symbol factory: unused until subject_to(grid='inf') references it",
}

TRANSCRIBED_ENV = {
    "self.master is not None and self.master.is_transcribed": True,
    "self.master is not None": True,
    "self.master": True,
    "self.master.is_transcribed": True,
    "self.is_transcribed": True,
    "transcribed": True,
}


def transcribed_env(ctx, *fis):
    """TRANSCRIBED_ENV plus every local name bound to one of its expressions (e.g. `is_transcribed = self.master is not None and ...`)."""
    env = dict(TRANSCRIBED_ENV)
    canon = {Norm(None).key(ast.parse(t, mode="eval").body): v for t, v in TRANSCRIBED_ENV.items() if t not in ("transcribed",)}
    for fi in fis:
        if fi is None:
            continue
        # tests written through local aliases (master = self.master) denote the same condition
        nn = ctx.norm(fi)
        for node in ast.walk(fi.node):
            if isinstance(node, (ast.If, ast.IfExp, ast.Assign)):
                t = node.test if not isinstance(node, ast.Assign) else node.value
                for sub in ast.walk(t):
                    if isinstance(sub, (ast.BoolOp, ast.Compare, ast.Attribute, ast.Name)) and hasattr(sub, "lineno"):
                        try:
                            k = nn.key(sub)
                        except Exception:
                            continue
                        if k in canon:
                            env[ast.unparse(sub)] = canon[k]
        for n in ast.walk(fi.node):
            if isinstance(n, ast.Assign) and len(n.targets) == 1 and isinstance(n.targets[0], ast.Name):
                v = const_guard(n.value, TRANSCRIBED_ENV)
                if v is not None and not isinstance(n.value, ast.Constant):
                    env[n.targets[0].id] = v
    return env


def _is_invalidate(n):
    return (is_call_to(n, "_set_transcribed") and len(n.args) == 1 and isinstance(n.args[0], ast.Constant)
            and n.args[0].value is False)


def _is_dirty(n):
    return is_call_to(n, "mark_dirty")


# methods of the method object that push a declared value / guess table into the live transcription
# (apply_initial = set_initial + the local time-grid guesses that follow from it; its sequence is checked by R10.2)
WRITE_THROUGH = ("set_value", "set_initial", "apply_initial")


def _is_write_through(n):
    return isinstance(n, ast.Call) and isinstance(n.func, ast.Attribute) and n.func.attr in WRITE_THROUGH \
        and (ast.unparse(n.func.value) in ("self._method", "stage._method") or
             (isinstance(n.func.value, ast.Attribute) and n.func.value.attr == "_method" and isinstance(n.func.value.value, ast.Name)))   # `for s in ...iter_stages(..): s._method...`


def _event(n):
    return _is_invalidate(n) or _is_dirty(n) or _is_write_through(n)


def spec_attrs(prog):
    init = prog.own_method("Stage", "__init__")
    attrs = {w.attr for w in writes_in(init.node)}
    return attrs - CACHE_ATTRS


def config_mutators(prog):
    """Methods of the DirectMethod family that write the CONFIG attributes (solver settings)."""
    out = set()
    for cn in prog.subclasses("DirectMethod"):
        for name, f in prog.cls(cn).methods.items():
            if name in ("__init__", "inherit", "clean"):
                continue
            if any(w.attr in ("_solver", "_solver_options", "_callback") for w in writes_in(f.node, include_nested=True)):
                out.add(name)
    return out


def public_mutators(prog, cname):
    c = prog.cls(cname)
    for name, f in sorted(c.methods.items()):
        if name.startswith("_"):
            continue
        if any(d in ("transcribed", "property", "staticmethod", "contextmanager") or d.endswith(".setter") for d in f.decorators):
            continue
        yield f


def collect_write_sites(ctx, f, spec, cfg, depth=0, seen=None):
    """(function holding the write, node, attr) for SPEC/CONFIG writes reachable from public method f
    through closures and private self-calls; public callees are checked on their own."""
    prog = ctx.prog
    seen = seen if seen is not None else set()
    if f.qualname in seen or depth > 3:
        return []
    seen.add(f.qualname)
    out = []
    for w in writes_in(f.node):
        if w.attr in spec:
            out.append((f, w.node, w.attr))
    for n in walk_no_nested(f.node):
        if isinstance(n, ast.Call) and isinstance(n.func, ast.Attribute):
            recv = ast.unparse(n.func.value)
            if recv == "self._method" and n.func.attr in cfg:
                out.append((f, n, "_method." + n.func.attr))
            if recv == "self" and f.cls is not None:
                g = prog.resolve(f.cls.name, n.func.attr)
                if g is not None and g.name.startswith("_") and not g.name.startswith("__") and g.name != "_set_transcribed":
                    out += collect_write_sites(ctx, g, spec, cfg, depth + 1, seen)
    for g in nested_functions(f).values():
        out += collect_write_sites(ctx, g, spec, cfg, depth + 1, seen)
    return out


def _inline_self(prog, f):
    def inline(call):
        if isinstance(call.func, ast.Attribute) and ast.unparse(call.func.value) == "self" and f.cls is not None:
            g = prog.resolve(f.cls.name, call.func.attr)
            if g is not None and g.name.startswith("_") and not any(d == "property" for d in g.decorators):
                return g.node.body
        return None
    return inline


@rule("R13.1", min_instances=24, desc="invalidate-on-edit: every public Stage/Ocp mutator invalidates, writes through, or marks placeholders dirty on every non-raising path")
def r13_1(ctx):
    prog = ctx.prog
    spec = spec_attrs(prog) | {"_method"}
    cfg = config_mutators(prog)
    ctx.note("spec_attrs", sorted(spec))
    ctx.note("config_mutators", sorted(cfg))
    if len(spec) < 20:
        raise AnalysisError("Stage.__init__ initialises only %d specification attributes" % len(spec))
    for cname in ("Stage", "Ocp"):
        for f in public_mutators(prog, cname):
            sites = collect_write_sites(ctx, f, spec, cfg)
            if not sites:
                continue
            ENV = transcribed_env(ctx, f)
            site_nodes = {id(node) for (_g, node, _a) in sites}
            closures_with_writes = {g.name for (g, _n, _a) in sites if g.outer is not None}

            def wp(n, _ids=site_nodes, _cl=closures_with_writes):
                if id(n) in _ids:
                    return True
                # handing a writing closure to a helper (for_all_primitives) counts as the write
                return isinstance(n, ast.Call) and any(isinstance(a, ast.Name) and a.id in _cl for a in n.args)

            for (g, node, attr) in sites:
                inst = "%s writes %s" % (f.qualname, attr)
                if (f.qualname, attr) in FACTORY_EXEMPT or (g.qualname, attr) in FACTORY_EXEMPT:
                    ctx.ok(inst, fi=g, sample={"exempt": FACTORY_EXEMPT.get((f.qualname, attr), FACTORY_EXEMPT.get((g.qualname, attr)))})
                    continue
                sg = ctx.scope(g)
                feas = True
                for test, pol in sg.guards(node):
                    v = const_guard(test, ENV)
                    if v is not None and v != pol:
                        feas = False
                if g.outer is not None:
                    so = ctx.scope(g.outer)
                    for test, pol in so.guards(g.node):
                        v = const_guard(test, ENV)
                        if v is not None and v != pol:
                            feas = False
                if not feas:
                    ctx.ok(inst + " (unreachable once transcribed)", fi=g)
                    continue
                one = lambda n, _n=node: n is _n
                # (A) inside the writer function: every non-raising path through the write has the event
                okA, badA = write_implies_event(g.node.body, one, _event, env=ENV, inline=_inline_self(prog, g))
                okB, badB = True, []
                if not okA:
                    # (B) in the public method (closure hand-over or private callee counts as the write)
                    if g is f:
                        okB, badB = False, badA
                    else:
                        okB, badB = write_implies_event(f.node.body, wp, _event, env=ENV, inline=_inline_self(prog, f))
                ctx.check(okA or okB, inst, detail="no invalidation",
                          expected="self._set_transcribed(False), a write-through to the live transcription, or mark_dirty() on every non-raising path that performs the write",
                          found="path that writes without any of them: " + ", ".join(describe_exit(e) for e in (badB or badA)[:3]),
                          fi=g, node=node,
                          sample={"via": "writer function" if okA else "public method"})


@rule("R13.2", min_instances=1, desc="Stage.set_value records the value in the specification (_param_vals) on every non-raising path")
def r13_2(ctx):
    check_set_value_write_through(ctx)


def check_set_value_write_through(ctx):
    prog = ctx.prog
    f = prog.own_method("Stage", "set_value")
    closures = [g for g in nested_functions(f).values()]
    # callbacks handed to for_all_primitives
    used = set()
    for n in walk_no_nested(f.node):
        if is_call_to(n, "for_all_primitives"):
            for a in n.args:
                if isinstance(a, ast.Name):
                    used.add(a.id)

    def writes_vals(n):
        if isinstance(n, (ast.Assign, ast.AugAssign)):
            ts = n.targets if isinstance(n, ast.Assign) else [n.target]
            return any(root_attr(t) == "_param_vals" for t in ts)
        return isinstance(n, ast.Call) and isinstance(n.func, ast.Attribute) and n.func.attr in ("update", "setdefault", "__setitem__") \
            and root_attr(n.func.value) == "_param_vals"

    cands = [g for g in closures if g.name in used] or []
    if not cands:
        # no closure: the method body itself must write
        ok, bad = must_on_all_paths(f.node.body, writes_vals)
        ctx.check(ok, "Stage.set_value", detail="value not recorded in _param_vals",
                  expected="self._param_vals[parameter] = value on every non-raising path",
                  found="; ".join(describe_exit(e) for e in bad[:3]), fi=f)
        return
    for g in cands:
        ok, bad = must_on_all_paths(g.node.body, writes_vals)
        branch = ""
        gs = ctx.scope(f).guards(g.node)
        if gs:
            branch = " defined under " + " and ".join(("" if pol else "not ") + "(" + ast.unparse(t) + ")" for t, pol in gs)
        ctx.check(ok, "Stage.set_value callback %s" % g.name, detail="value not recorded in _param_vals",
                  expected="self._param_vals[parameter] = value on every non-raising path of the callback",
                  found="callback%s has %s without the write" % (branch, "; ".join(describe_exit(e) for e in bad[:3])),
                  fi=g, node=g.node)


def accumulated_and_reset(ctx, cname):
    """For concrete method class cname: attributes accumulated under transcribe, and attributes freshly assigned."""
    prog = ctx.prog
    entry = prog.method(cname, "transcribe")
    seen, _ = prog.reachable([entry], concrete=cname, max_depth=6,
                             stop=lambda f: f.cls is None or "DirectMethod" not in [c.name for c in prog.mro(f.cls.name)])
    acc, plain = {}, set()
    for f in seen.values():
        if f.cls is None or "DirectMethod" not in [c.name for c in prog.mro(f.cls.name)]:
            continue
        if f.name in ("clean", "__init__", "untranscribe", "main_untranscribe"):
            continue
        for w in writes_in(f.node):
            if w.kind in ("call", "aug") and not w.plain:
                if w.kind == "call" and isinstance(w.node, ast.Call) and w.node.func.attr not in ("append", "extend", "insert", "update", "add"):
                    continue
                # accumulate into the attribute itself (not into an element of it)
                tgt = w.node.func.value if w.kind == "call" else (w.node.target if isinstance(w.node, ast.AugAssign) else w.node.targets[0])
                if isinstance(tgt, ast.Attribute) and isinstance(tgt.value, ast.Name) and tgt.value.id == "self":
                    acc.setdefault(w.attr, (f, w.node))
            elif w.kind == "assign" and w.plain:
                plain.add(w.attr)
    return acc, plain


def clean_resets(ctx, cname):
    prog = ctx.prog
    out = set()
    f = prog.method(cname, "clean")
    work, seen = [f], set()
    while work:
        g = work.pop()
        if g.qualname in seen:
            continue
        seen.add(g.qualname)
        for w in writes_in(g.node):
            if w.kind == "assign" and w.plain:
                out.add(w.attr)
        for n in walk_no_nested(g.node):
            if isinstance(n, ast.Call) and isinstance(n.func, ast.Attribute) and n.func.attr == "clean":
                recv = ast.unparse(n.func.value)
                if recv in prog.classes:
                    h = prog.resolve(recv, "clean")
                    if h:
                        work.append(h)
    return out


@rule("R13.3", min_instances=30, desc="reset-before-transcribe: the method object is reset before every phase-1 transcription and every accumulated attribute is reset by clean()")
def r13_3(ctx):
    prog = ctx.prog
    tr = prog.own_method("Ocp", "_transcribe")

    # (a) in Ocp._transcribe a reset of the method objects precedes phase 1 on every path
    def is_phase1(n):
        return is_call_to(n, "_transcribe_recurse", "self") and any(
            kw.arg == "phase" and isinstance(kw.value, ast.Constant) and kw.value.value == 1 for kw in n.keywords)

    def is_reset(n):
        return (is_call_to(n, "_untranscribe_recurse") or is_call_to(n, "_untranscribe")) and not _guarded_untranscribe(n)

    def _guarded_untranscribe(n):
        # self._untranscribe() is a no-op when not transcribed: it does not count as an unconditional reset
        return is_call_to(n, "_untranscribe")

    p1 = [n for n in walk_no_nested(tr.node) if is_phase1(n)]
    ctx.check(len(p1) >= 1, "Ocp._transcribe phase-1 recursion present", detail="missing phase 1",
              expected="self._transcribe_recurse(phase=1, ...)", found="no such call", fi=tr)
    # all paths to the phase-1 call pass a reset: walk the body, stop at phase-1 call
    from ..paths import Walker

    class W(Walker):
        def __init__(s):
            super().__init__()
            s.bad = []

        def guard(s, test, state):
            return const_guard(test, {"self.is_transcribed": False, "not self.is_transcribed": True})

        def transfer(s, node, state):
            for sub in sorted(walk_no_nested(node), key=lambda x: (getattr(x, "lineno", 0), getattr(x, "col_offset", 0))):
                if is_reset(sub):
                    state = True
                if is_phase1(sub) and not state:
                    s.bad.append(sub)
            return state

    w = W()
    w.run(tr.node.body, False)
    central = not w.bad

    # ... or each concrete sampling method resets itself before it builds anything in phase 1
    class C(Walker):
        def __init__(s):
            super().__init__()
            s.bad = []

        def guard(s, test, state):
            return const_guard(test, {"phase": 1})

        def transfer(s, node, state):
            for sub in sorted(walk_no_nested(node), key=lambda x: (getattr(x, "lineno", 0), getattr(x, "col_offset", 0))):
                if is_call_to(sub, "clean", "self"):
                    state = True
                elif isinstance(sub, ast.Call) and isinstance(sub.func, ast.Attribute) and ast.unparse(sub.func.value) == "self" and not state:
                    s.bad.append(sub)
            return state

    for cname in prog.subclasses("SamplingMethod"):
        if cname == "SamplingMethod":
            continue
        t = prog.method(cname, "transcribe")
        c = C()
        c.run(t.node.body, False)
        local = not c.bad
        ctx.check(central or local, "%s: method state reset before phase-1 transcription" % cname,
                  detail="phase 1 reachable without reset of method state",
                  expected="self.clean() before anything is built in %s (phase 1), or a reset of all method objects in Ocp._transcribe before phase 1" % t.qualname,
                  found="%s reached with the lists of the previous transcription still in place" % (
                      ("self.%s(...) at %s:%d" % (c.bad[0].func.attr, t.module.relpath, c.bad[0].lineno)) if c.bad else "phase 1"),
                  fi=t, node=(c.bad[0] if c.bad else t.node))

    # (b) the recursive reset reaches every stage's method.untranscribe
    ur = prog.own_method("Stage", "_untranscribe_recurse")
    ok_m, _ = must_on_all_paths(ur.node.body, lambda n: is_call_to(n, "untranscribe", "self._method"),
                                env={"self._method is not None": True, "self._method is None": False})
    ctx.check(ok_m, "Stage._untranscribe_recurse -> method.untranscribe", detail="method.untranscribe not called",
              expected="self._method.untranscribe(...) on every path", found="missing", fi=ur)
    rec = [n for n in walk_no_nested(ur.node) if is_call_to(n, "_untranscribe_recurse")]
    loops = [st for st in ur.node.body if isinstance(st, ast.For) and ast.unparse(st.iter) == "self._stages"]
    ctx.check(bool(rec) and bool(loops), "Stage._untranscribe_recurse recursion over self._stages", detail="sub-stages not reset",
              expected="for s in self._stages: s._untranscribe_recurse(...)", found="missing", fi=ur)

    # (c) untranscribe of each concrete class calls clean(); (d) every accumulated attribute is reset
    for cname in prog.subclasses("SamplingMethod") + ["DirectMethod"]:
        if cname == "SamplingMethod":
            continue
        un = prog.method(cname, "untranscribe")
        ok_c, _ = must_on_all_paths(un.node.body, lambda n: is_call_to(n, "clean", "self"))
        ctx.check(ok_c, "%s.untranscribe calls self.clean()" % cname, detail="clean() not called",
                  expected="self.clean()", found="missing in " + un.qualname, fi=un)
        if cname == "DirectMethod":
            continue
        acc, plain = accumulated_and_reset(ctx, cname)
        resets = clean_resets(ctx, cname)
        for attr, (f, node) in sorted(acc.items()):
            ctx.check(attr in resets or attr in plain, "%s accumulates self.%s" % (cname, attr),
                      detail="accumulated attribute never reset",
                      expected="self.%s re-initialised in %s.clean() (or freshly assigned during transcription)" % (attr, cname),
                      found="appended/extended in %s, no reset" % f.qualname, fi=f, node=node,
                      sample={"reset_in": "clean" if attr in resets else "transcription"})


@rule("R13.4", min_instances=4, desc="copy discipline: Ocp._transcribe only ever runs on the deep copy; the original is deep-copied before transcription")
def r13_4(ctx):
    prog = ctx.prog
    n_sites = 0
    for cname in ("Stage", "Ocp"):
        for f in prog.cls(cname).methods.values():
            sc = None
            for n in walk_no_nested(f.node):
                if isinstance(n, ast.Call) and isinstance(n.func, ast.Attribute) and n.func.attr == "_transcribe":
                    sc = sc or ctx.scope(f)
                    recv = ast.unparse(n.func.value)
                    guards = sc.guards(n)
                    dominated = any((ast.unparse(t) == "self._is_original" and pol is False) or
                                    (ast.unparse(t) == "not self._is_original" and pol is True) for t, pol in guards)
                    n_sites += 1
                    # the receiver may also be the deep copy that was just made (a local assigned from deepcopy(self))
                    fresh = False
                    if isinstance(n.func.value, ast.Name):
                        fresh = any(d.kind == "assign" and isinstance(d.value, ast.Call) and ast.unparse(d.value.func) in ("copy.deepcopy", "deepcopy") and d.value.args
                                    and ast.unparse(d.value.args[0]) == "self" for d in sc.defs.get(n.func.value.id, []))
                    if not fresh and recv == "self._augmented":
                        # ... or `self._augmented` right after `self._var_augmented = <that copy>` on the same path
                        for st in walk_no_nested(f.node):
                            if isinstance(st, ast.Assign) and ast.unparse(st.targets[0]) == "self._var_augmented" and isinstance(st.value, ast.Name) and sc.order[st] < sc.order[n] \
                                    and [(ast.unparse(t), p_) for t, p_ in sc.guards(st)] == [(ast.unparse(t), p_) for t, p_ in guards] \
                                    and any(d.kind == "assign" and isinstance(d.value, ast.Call) and ast.unparse(d.value.func) in ("copy.deepcopy", "deepcopy") and d.value.args
                                            and ast.unparse(d.value.args[0]) == "self" for d in sc.defs.get(st.value.id, [])):
                                fresh = True
                    if f.qualname == "Ocp._transcribed":
                        # a query on a copy that already exists must never transcribe: the copy may be a stale one kept alive by an old
                        # solution object, and Ocp._transcribe ends by marking the ORIGINAL as transcribed (the next solve would reuse it)
                        ctx.check(fresh, "Ocp._transcribed transcribes only the copy it has just made", detail="a query on an existing (possibly stale) copy re-transcribes it and marks the original as transcribed: changes made since are ignored by the next solve",
                                  expected="augmented = copy.deepcopy(self); ...; augmented._transcribe()  -- and no _transcribe() in the branch for copies",
                                  found="%s._transcribe() under guards [%s]" % (recv, ", ".join(("" if p else "not ") + ast.unparse(t) for t, p in guards)), fi=f, node=n)
                        continue
                    ctx.check((recv == "self" and dominated) or fresh, f.qualname, detail="_transcribe on a tree that may be the original",
                              expected="call self._transcribe() only under `not self._is_original` (the receiver is the deep copy)",
                              found="%s._transcribe() under guards [%s]" % (recv, ", ".join(("" if p else "not ") + ast.unparse(t) for t, p in guards)),
                              fi=f, node=n)
    tp = prog.own_method("Ocp", "_transcribed")
    has_copy = any(isinstance(n, ast.Call) and ast.unparse(n.func) in ("copy.deepcopy", "deepcopy") and n.args and ast.unparse(n.args[0]) == "self"
                   for n in walk_no_nested(tp.node))
    ctx.check(has_copy, "Ocp._transcribed deep-copies the original", detail="no deepcopy(self)",
              expected="copy.deepcopy(self) before transcription", found="missing", fi=tp)
    # the original that is already transcribed returns its augmented copy without transcribing again
    sc = ctx.scope(tp)
    rets = [n for n in walk_no_nested(tp.node) if isinstance(n, ast.Return)]
    early = [r for r in rets if r.value is not None and ast.unparse(r.value) == "self._augmented"
             and any(ast.unparse(t) == "self._is_transcribed" and p for t, p in sc.guards(r))]
    ctx.check(bool(early), "Ocp._transcribed returns the cached transcription when transcribed", detail="no cached return",
              expected="return self._augmented under self._is_transcribed", found="missing", fi=tp)
    # phase-1 callbacks only touch their `stage` argument
    for name, f in sorted(prog.cls("DirectMethod").methods.items()):
        if not name.startswith("fill_placeholders_"):
            continue
        bad = [n for n in walk_no_nested(f.node) if isinstance(n, ast.Attribute) and n.attr in ("_original", "_var_original")]
        ctx.check(not bad, "%s touches only its stage argument" % f.qualname, detail="reaches the original through the copy",
                  expected="no access to ._original", found="access at line %s" % (bad[0].lineno if bad else ""), fi=f)


@rule("R13.5", min_instances=5, desc="Stage.method() deep-copies the method and inherits the solver settings")
def r13_5(ctx):
    prog = ctx.prog
    f = prog.own_method("Stage", "method")
    sc = ctx.scope(f)
    assign = [n for n in walk_no_nested(f.node) if isinstance(n, ast.Assign) and any(ast.unparse(t) == "self._method" for t in n.targets)]
    ok = bool(assign) and all(isinstance(a.value, ast.Call) and ast.unparse(a.value.func) in ("deepcopy", "copy.deepcopy") for a in assign)
    ctx.check(ok, "Stage.method stores a deep copy", detail="method object shared with the caller",
              expected="self._method = deepcopy(method)", found=ast.unparse(assign[0]) if assign else "no assignment", fi=f)
    inh = [n for n in walk_no_nested(f.node) if is_call_to(n, "inherit", "self._method")]
    ok = False
    if inh and assign:
        arg = inh[0].args[0] if inh[0].args else None
        if isinstance(arg, ast.Name):
            v = sc.reaching(arg.id, arg)
            ok = v is not None and ast.unparse(v) == "self._method" and sc.order[sc.stmt_of(v)] < sc.order[assign[0]] < sc.order[sc.stmt_of(inh[0])]
    ctx.check(ok, "Stage.method inherits settings from the previous method", detail="solver settings not inherited",
              expected="template = self._method (before replacement); self._method.inherit(template)", found="not found", fi=f)
    g = prog.own_method("DirectMethod", "inherit")
    for attr in ("_solver", "_solver_options", "_callback"):
        okk = any(isinstance(n, ast.Assign) and any(ast.unparse(t) == "self." + attr for t in n.targets)
                  and ast.unparse(n.value) == "template." + attr for n in walk_no_nested(g.node))
        ctx.check(okk, "DirectMethod.inherit copies %s" % attr, detail="setting not inherited",
                  expected="self.%s = template.%s" % (attr, attr), found="missing", fi=g)


QUERY_API = {"Stage": ["sample", "value", "discrete_system", "sampler"],
             "Ocp": ["jacobian", "hessian", "solve", "solve_limited", "gist", "to_function", "placeholders_transcribed", "spy_jacobian", "spy_hessian"]}


@rule("R13.6", min_instances=14, desc="@transcribed on every query/solve entry point; the decorator routes through self._transcribed")
def r13_6(ctx):
    prog = ctx.prog
    for cname, names in QUERY_API.items():
        for nm in names:
            f = prog.own_method(cname, nm)
            ctx.check("transcribed" in f.decorators, "%s is @transcribed" % f.qualname, detail="query runs on an untranscribed tree",
                      expected="@transcribed", found=", ".join(f.decorators) or "no decorator", fi=f)
    d = prog.function("stage", "transcribed")
    inner = list(nested_functions(d).values())
    ok = False
    for g in inner:
        for n in walk_no_nested(g.node):
            if isinstance(n, ast.Call) and isinstance(n.func, ast.Name) and n.func.id == d.params[0] and n.args \
                    and ast.unparse(n.args[0]) == "self._transcribed":
                ok = True
    ctx.check(ok, "decorator transcribed() calls func(self._transcribed, ...)", detail="decorator does not transcribe",
              expected="func(self._transcribed, *args, **kwargs)", found="not found", fi=d)


@rule("R13.7", min_instances=4, desc="the invalidation flag written by _set_transcribed is the flag read by is_transcribed (the master's), for stages at any depth")
def r13_7(ctx):
    prog = ctx.prog
    f = prog.own_method("Stage", "_set_transcribed")
    sc = ctx.scope(f)
    # the write of the flag itself (bookkeeping of other attributes next to it is not this rule's business)
    allw = [st for st in walk_no_nested(f.node) if isinstance(st, ast.Assign)]
    ws = [st for st in allw if ast.unparse(st.targets[0]).endswith("._var_is_transcribed") or ast.unparse(st.targets[0]).endswith("._is_transcribed")] or allw
    ok = len(ws) == 1 and ast.unparse(ws[0].targets[0]) == "self.master._var_is_transcribed" and ast.unparse(ws[0].value) == f.params[1]
    ctx.check(ok, "Stage._set_transcribed writes the master's flag", detail="invalidation recorded on the wrong object (sub-stage edits ignored)",
              expected="self.master._var_is_transcribed = val", found="; ".join(ast.unparse(w) for w in ws), fi=f)
    if ws:
        gs = sorted((ast.unparse(t), p) for t, p in sc.path_guards(ws[0]))
        ctx.check(gs == [("self._is_original", True), ("self.master", True)], "Stage._set_transcribed acts for every original stage attached to an OCP", detail="invalidation skipped",
                  expected="if self.master: if self._is_original:", found=gs, fi=f)
    g = prog.own_method("Stage", "_is_transcribed")
    from ..norm import return_cases
    rets = return_cases(ctx.scope(g))
    want = [("self.master._var_is_transcribed", [("self._is_original", True)]), ("self._original._is_transcribed", [("self._is_original", False)])]
    ctx.check(rets == want, "Stage._is_transcribed reads the same flag", detail="reader and writer of the transcription flag disagree", expected=want, found=rets, fi=g)
    h = prog.own_method("Stage", "is_transcribed")
    rets = return_cases(ctx.scope(h))
    want = [("self.master._is_transcribed", [("self.master", True)]), ("False", [("self.master", False)])]
    ctx.check(rets == want, "Stage.is_transcribed asks the master", detail="transcription state read from the wrong object", expected=want, found=rets, fi=h)
    t = prog.own_method("Ocp", "_transcribe")
    marks = [c for c in walk_no_nested(t.node) if is_call_to(c, "_set_transcribed") and c.args and ast.unparse(c.args[0]) == "True"]
    ok = len(marks) == 1 and ast.unparse(marks[0].func.value) == "self._original"
    ctx.check(ok, "Ocp._transcribe marks the original as transcribed", detail="flag set on the copy", expected="self._original._set_transcribed(True)", found="; ".join(ast.unparse(m) for m in marks), fi=t)
    sct = ctx.scope(t)
    p1 = [c for c in walk_no_nested(t.node) if is_call_to(c, "_transcribe_recurse", "self") and any(kw.arg == "phase" and isinstance(kw.value, ast.Constant) and kw.value.value == 1 for kw in c.keywords)]
    ok = len(marks) == 1 and len(p1) == 1 and sct.order[p1[0]] < sct.order[marks[0]]
    ctx.check(ok, "Ocp._transcribe marks the OCP as transcribed only after phase 1 has succeeded", detail="a transcription that failed half-way is reused by the next solve",
              expected="_transcribe_recurse(phase=1) before _set_transcribed(True)", found="mark precedes phase 1" if marks and p1 else "missing", fi=t)


def param_mutations(ctx, f, pname):
    """Mutations of the object bound to parameter pname while it still is the caller's object."""
    sc = ctx.scope(f)
    out = []
    for n in walk_no_nested(f.node):
        tgt = None
        if isinstance(n, ast.Delete):
            for t in n.targets:
                if isinstance(t, ast.Subscript) and isinstance(t.value, ast.Name) and t.value.id == pname:
                    tgt = t.value
        elif isinstance(n, ast.Assign):
            for t in n.targets:
                if isinstance(t, ast.Subscript) and isinstance(t.value, ast.Name) and t.value.id == pname:
                    tgt = t.value
        elif isinstance(n, ast.Call) and isinstance(n.func, ast.Attribute) and isinstance(n.func.value, ast.Name) and n.func.value.id == pname \
                and n.func.attr in ("pop", "popitem", "clear", "update", "setdefault", "move_to_end", "append", "extend", "remove", "insert", "__setitem__", "__delitem__"):
            tgt = n.func.value
        if tgt is None:
            continue
        # is the name rebound to a fresh container before this point (in a dominating block)?
        rebound = False
        for d in sc.defs.get(pname, []):
            if d.kind == "assign" and d.order < sc.order[n] and isinstance(d.value, ast.Call) and not sc.guards(d.stmt) and not sc.enclosing_loops(d.stmt):
                rebound = True
        if not rebound:
            out.append(n)
    return out


@rule("R13.8", min_instances=5, desc="write-through callees treat the user's specification containers as read-only (they work on a copy)")
def r13_8(ctx):
    prog = ctx.prog
    for cname in ("SamplingMethod", "DirectCollocation", "DirectMethod", "SplineMethod"):
        f = prog.own_method(cname, "set_initial")
        pname = f.params[3]
        muts = param_mutations(ctx, f, pname)
        ctx.check(not muts, "%s.set_initial does not edit the caller's guess table" % cname, detail="a later set_initial erases or alters declared guesses",
                  expected="work on a copy (initial = HashOrderedDict(initial)) before deleting/adding entries", found="; ".join(ast.unparse(m)[:60] for m in muts[:2]), fi=f,
                  node=(muts[0] if muts else None))
    f = prog.own_method("Stage", "set_initial")
    calls = [c for c in walk_no_nested(f.node) if isinstance(c, ast.Call) and isinstance(c.func, ast.Attribute) and c.func.attr in ("set_initial", "apply_initial")
             and isinstance(c.func.value, ast.Attribute) and c.func.value.attr == "_method"]
    nn = ctx.norm(f)
    ok = len(calls) == 1
    if ok:
        who = ast.unparse(calls[0].func.value.value)
        ok = [nn.key(a) for a in calls[0].args] == ["%s._augmented" % who, "self.master._method", "%s._initial" % who]
        if who != "self":
            lp = ctx.scope(f).enclosing_loops(calls[0])
            ok = ok and bool(lp) and ast.unparse(lp[-1][0]) == who and "iter_stages" in ast.unparse(lp[-1][1]) and nn.key(lp[-1][1].func.value) == "self.master"
    ctx.check(ok, "Stage.set_initial re-applies the whole guess table to the live transcription", detail="write-through call", expected="self._method.set_initial(self._augmented, self.master._method, self._initial)",
              found="; ".join(ast.unparse(c) for c in calls), fi=f)


@rule("R13.9", min_instances=12, desc="a set_value after a solve reaches the Opti parameter of that very symbol (writer/reader tables, shared with C09)")
def r13_9(ctx):
    from .c09 import r09_1
    r09_1(ctx)


@rule("R13.10", min_instances=1, desc="a transcription that fails half-way is not remembered as done: the flag set before phase 2 is withdrawn when phase 2 raises")
def r13_10(ctx):
    """Ocp._transcribe marks the OCP as transcribed before phase 2 (phase 2 itself uses @transcribed accessors).  If phase 2
    raises (Opti rejects a symbol, a constant-false constraint, a bad guess) and the flag stays set, a second solve() of the
    unchanged, ill-posed OCP skips transcription and runs on the half-built NLP."""
    P = ctx.prog
    f = P.own_method("Ocp", "_transcribe")
    sc = ctx.scope(f)
    sets = [c for c in walk_no_nested(f.node) if is_call_to(c, "_set_transcribed") and c.args and ast.unparse(c.args[0]) == "True"]
    p2 = [c for c in walk_no_nested(f.node) if is_call_to(c, "_transcribe_recurse") and any(k.arg == "phase" and ast.unparse(k.value) == "2" for k in c.keywords)]
    ctx.check(len(sets) == 1 and len(p2) == 1, "Ocp._transcribe: flag and phase 2 located", detail="structure", expected="_set_transcribed(True) ... _transcribe_recurse(phase=2)", found="%d / %d" % (len(sets), len(p2)), fi=f)
    if len(sets) != 1 or len(p2) != 1:
        return
    if sc.order[sets[0]] > sc.order[p2[0]]:
        ctx.ok("Ocp._transcribe sets the flag after phase 2", fi=f)
        return
    ok = False
    for t in walk_no_nested(f.node):
        if isinstance(t, ast.Try) and any(x is p2[0] for st in t.body for x in ast.walk(st)):
            for h in t.handlers:
                broad = h.type is None or ast.unparse(h.type) in ("BaseException", "Exception")
                resets = any(is_call_to(x, "_set_transcribed") and x.args and ast.unparse(x.args[0]) == "False" for x in ast.walk(h))
                reraises = any(isinstance(x, ast.Raise) and x.exc is None for x in ast.walk(h))
                ok = ok or (broad and resets and reraises)
            for st in t.finalbody:
                pass
    ctx.check(ok, "Ocp._transcribe withdraws the transcribed flag when phase 2 raises", detail="after a rejection raised in phase 2 a repeated solve() of the unchanged OCP runs on the half-built NLP (no error, truncated constraints, objective 0)",
              expected="try: self._transcribe_recurse(phase=2, ...) except: self._original._set_transcribed(False); raise", found="phase 2 unguarded", fi=f, node=p2[0])


@rule("R13.11", min_instances=3, desc="the specification owns its data: guesses and solver options are stored as private copies; a declaration that is rejected leaves the specification unchanged (validate before mutating)")
def r13_11(ctx):
    from ..model import nested_functions
    P = ctx.prog
    COPIERS = ("DM", "deepcopy", "copy.deepcopy", "np.array", "numpy.array", "copy", "copy.copy", "np.copy", "dict", "list")
    # (a) guesses
    f = P.own_method("Stage", "set_initial")
    fns = [f] + list(nested_functions(f).values())
    stores = [(g, st) for g in fns for st in walk_no_nested(g.node) if isinstance(st, ast.Assign) and isinstance(st.targets[0], ast.Subscript) and ast.unparse(st.targets[0].value) == "self._initial"]
    for g, st in stores:
        v = st.value
        ok = isinstance(v, ast.Call) and ast.unparse(v.func) in COPIERS
        ctx.check(ok, "Stage.set_initial stores a private copy of the guess", detail="the caller's array is stored by reference: since the whole guess table is re-applied by later set_initial calls and re-transcriptions, mutating the array changes the starting point afterwards",
                  expected="self._initial[var] = deepcopy(value)", found=ast.unparse(st), fi=g, node=st)
    ctx.check(len(stores) >= 1, "Stage.set_initial records the guess", detail="record", expected="self._initial[var] = ...", found=str(len(stores)), fi=f)
    # (b) solver options
    s = P.own_method("DirectMethod", "solver")
    w = [st for st in walk_no_nested(s.node) if isinstance(st, ast.Assign) and ast.unparse(st.targets[0]) == "self._solver_options"]
    ok = len(w) == 1 and isinstance(w[0].value, ast.Call) and ast.unparse(w[0].value.func) in COPIERS
    ctx.check(ok, "DirectMethod.solver stores a private copy of the options", detail="the caller's dict is stored by reference (and the default {} is shared between calls): a later edit of that dict changes the solver settings of the next transcription",
              expected="self._solver_options = dict(solver_options)", found="; ".join(ast.unparse(x) for x in w), fi=s)
    # nested option dictionaries ({"ipopt": {"tol": ..}}) are part of the declaration too: the copy has to be deep (D95)
    deep = len(w) == 1 and any(isinstance(x, ast.Call) and ast.unparse(x.func).split(".")[-1] == "deepcopy" for x in ast.walk(w[0].value))
    ctx.check(deep, "DirectMethod.solver copies nested option dictionaries too", detail="opts['ipopt']['tol'] edited by the caller after ocp.solver(..) is silently used by the next re-transcription (and ignored until then)",
              expected="self._solver_options = deepcopy(dict(solver_options))", found="; ".join(ast.unparse(x) for x in w), fi=s)
    # (c) validate before mutating
    for fname, table, test in (("set_next", "_state_next", "self._state_der"), ("set_der", "_state_der", "self._state_next")):
        g = P.own_method("Stage", fname)
        scg = ctx.scope(g)
        asserts = [a for a in g.node.body if isinstance(a, ast.Assert) and test in ast.unparse(a.test)]
        writes = [st for st in walk_no_nested(g.node) if isinstance(st, ast.Assign) and isinstance(st.targets[0], ast.Subscript) and ast.unparse(st.targets[0].value) == "self.%s" % table and not scg._inside_nested(st)]
        calls = [c for c in g.node.body if isinstance(c, ast.Expr) and is_call_to(c.value, "for_all_primitives")]
        first_mut = min([scg.order[x] for x in writes + calls] or [10 ** 9])
        ok = len(asserts) == 1 and scg.order[asserts[0]] < first_mut
        ctx.check(ok, "Stage.%s checks the continuous/discrete exclusion before recording anything" % fname, detail="a rejected declaration is recorded anyway: the next solve silently transcribes the other kind of system",
                  expected="assert not %s before the first write to self.%s" % (test, table), found="assert at %s, first write at %s" % ([scg.order[a] for a in asserts], first_mut), fi=g)
    g = P.own_method("Stage", "add_objective")
    scg = ctx.scope(g)
    w = [st for st in walk_no_nested(g.node) if isinstance(st, ast.Assign) and ast.unparse(st.targets[0]) == "self._objective"]
    checks = [st for st in g.node.body if (isinstance(st, ast.If) and any(isinstance(x, ast.Raise) for x in st.body)) or isinstance(st, ast.Assert)]
    ok = bool(w) and bool(checks) and all(scg.order[c] < scg.order[w[0]] for c in checks)
    ctx.check(ok, "Stage.add_objective validates the term before adding it", detail="a rejected (non-scalar / signal-valued) term stays in the objective", expected="all checks before self._objective = ...",
              found="checks at %s, write at %s" % ([scg.order[c] for c in checks], [scg.order[x] for x in w]), fi=g)


@rule("R13.12", min_instances=3, desc="solving twice changes nothing: no function on the solve path (Ocp.solve / solve_limited -> method -> OptiWrapper.solve) writes guesses, values, constraints or the objective of the live problem")
def r13_12(ctx):
    from .c19 import OPTI_WRITERS
    P = ctx.prog
    roots = [P.own_method("Ocp", "solve"), P.own_method("Ocp", "solve_limited"), P.own_method("OptiWrapper", "solve")]
    for root in roots:
        seen, _ = P.reachable([root], max_depth=3, stop=lambda f: f.cls is None)
        # the solve path proper: functions named solve* (entry point, method, wrapper) and what they call inside rockit's method classes
        writers = []
        for g in seen.values():
            if g.cls is None or g.cls.name in ("OcpSolution", "OptiSolWrapper"):
                continue
            for c in walk_no_nested(g.node):
                if isinstance(c, ast.Call) and isinstance(c.func, ast.Attribute) and c.func.attr in OPTI_WRITERS:
                    recv = ast.unparse(c.func.value)
                    if recv in ("opti", "self.opti", "Opti", "self") or recv.endswith(".opti"):
                        if recv == "self" and g.cls.name != "OptiWrapper":
                            continue
                        writers.append("%s: %s" % (g.qualname, ast.unparse(c)[:70]))
        ctx.check(not writers, "%s leaves the transcribed problem as it is" % root.qualname, detail="a solve changes the starting point / data of the next solve: solve, solve is not the same as one solve followed by a fresh one",
                  expected="no set_initial / set_value / subject_to / minimize on the live Opti problem on the solve path", found="; ".join(writers[:3]), fi=root, sample={"reachable": sorted(g.qualname for g in seen.values())[:12]})


@rule("R13.13", min_instances=1, desc="a guess given after a solve reaches the same starting point as the same guess given before it: the guess tables of the whole stage tree are re-applied (shared with C10)")
def r13_13(ctx):
    from .c10 import r10_11
    r10_11(ctx)


@rule("R13.14", min_instances=2, desc="re-declaring the horizon leaves no trace of the earlier declaration: the guess recorded for the horizon that is re-declared (and only that one) is dropped (shared with C11: R11.8)")
def r13_14(ctx):
    from .c11 import r11_8
    r11_8(ctx)


@rule("R13.15", min_instances=5, desc="clear_constraints() withdraws every declared constraint, on every grid (simulated on a stage that carries one constraint per grid), and invalidates the transcription")
def r13_15(ctx):
    from ..sim import Sim, fresh_obj
    from ..layout import Sym, LayoutUnknown
    P = ctx.prog
    f = P.own_method("Stage", "clear_constraints")
    GRIDS = ["point", "control", "inf", "integrator", "integrator_roots"]
    cons = {g: [(Sym("c", g), Sym("m"), {})] for g in GRIDS}
    me = fresh_obj("self", _constraints=cons)
    inval = []
    hooks = {"defaultdict": lambda s_, r, a, k, n: {}, "._set_transcribed": lambda s_, r, a, k, n: inval.append(a[0] if a else None), "HashDict": lambda s_, r, a, k, n: {}}
    sim = Sim(P, hooks=hooks)
    sim.self_class = "Stage"
    try:
        sim.call(f, [me], {})
    except LayoutUnknown as e:
        raise AnalysisError("Stage.clear_constraints could not be simulated: %s" % e)
    table = me.attrs.get("_constraints")
    for g in GRIDS:
        left = table.get(g, []) if isinstance(table, dict) else "<not a table>"
        ctx.check(left == [] or left is None, "clear_constraints removes the %s constraints" % g, detail="a constraint withdrawn by the user stays in the next NLP", expected="no constraint left on grid %s" % g,
                  found=str(left)[:80], fi=f)
    ctx.check(inval == [False], "clear_constraints invalidates the transcription", detail="the next solve reuses the NLP with the withdrawn constraints", expected="self._set_transcribed(False)", found=str(inval), fi=f)
