"""E0c -- canonicalisation of the syntax trees before any rule runs.

Behaviour-preserving rewrites that bring equivalent idioms to one form, so that the rules (which
compare normal forms of *expressions*) do not depend on the statement-level idiom a maintainer
happened to choose:

  P0  un-rename: a private function that vanished from the frozen name list while an unknown function with
      (nearly) the same body fingerprint appeared in the same class/module is treated as renamed; the
      old name is restored in the definition and in every reference.
  P1  `L += [x]` -> `L.append(x)`;  `L += [x, y]` / `L += list-expression` on a name known to be a list ->
      `L.extend(...)`.
  P2  `if c: v = a` / `else: v = b` (single assignments to the same target) -> `v = a if c else b`,
      applied bottom-up so that elif chains become nested conditional expressions.
  P3  `for i, x in enumerate(L)` where i is unused -> `for x in L`.
  P5  the same statements at several leaves of a nest of ifs whose other leaves are empty -> one copy guarded by the
      disjunction of the path conditions.
  P6  `dict(a=x, b=y)` -> `{'a': x, 'b': y}`.
  P7  `set([e for ..])` / `set(e for ..)` -> `{e for ..}`.
  P9  `v = a` directly followed by `if c: v = b` -> `v = b if c else a`.
  P10 the local defined once as `m.opti if hasattr(m, 'opti') else m` is named `opti`.
  P12 local un-rename: a local variable that vanished from the frozen list of a function's bindings (known_locals.json) while
      a new one with the same kind of binding appeared in its place gets its known name back (scope-aware alpha-renaming).
  P4  `if c: r.m(a)` / `else: r.m(b)` (same callee, one differing positional argument) -> `r.m(a if c else b)`.

Nothing here changes what the analysed program would compute.
"""
import ast
import copy
import json
import os

HERE = os.path.dirname(os.path.abspath(__file__))


# ---------------------------------------------------------------------------------------- P0
def fingerprint(fnode):
    """Set of structural tokens of a function body (attribute names, called names, string constants, statement kinds)."""
    toks = set()
    for n in ast.walk(fnode):
        if n is fnode:
            continue
        if isinstance(n, ast.Attribute):
            toks.add("." + n.attr)
        elif isinstance(n, ast.Call) and isinstance(n.func, ast.Name):
            toks.add("call:" + n.func.id)
        elif isinstance(n, ast.Constant) and isinstance(n.value, str) and len(n.value) < 60:
            toks.add("str:" + n.value)
        elif isinstance(n, (ast.For, ast.While, ast.If, ast.Try, ast.Return, ast.Raise, ast.Assert, ast.Yield)):
            toks.add("stmt:" + type(n).__name__)
    return toks


def load_fingerprints():
    p = os.path.join(HERE, "known_fingerprints.json")
    try:
        return {k: set(v) for k, v in json.load(open(p)).items()}
    except Exception:
        return None


def write_fingerprints(prog):
    out = {}
    for m in prog.modules.values():
        for name, f in m.functions.items():
            out[m.relpath + ":" + name] = sorted(fingerprint(f.node))
        for c in m.classes.values():
            for name, f in c.methods.items():
                out[c.name + "." + name] = sorted(fingerprint(f.node))
    json.dump(out, open(os.path.join(HERE, "known_fingerprints.json"), "w"), indent=0)
    return len(out)


class _RenameRefs(ast.NodeTransformer):
    def __init__(self, new, old):
        self.new, self.old = new, old

    def visit_Attribute(self, n):
        self.generic_visit(n)
        if n.attr == self.new:
            n.attr = self.old
        return n

    def visit_Name(self, n):
        if n.id == self.new:
            n.id = self.old
        return n

    def visit_Constant(self, n):
        return n


def unrename(prog, known):
    """Restore the known name of private functions that were renamed (unique best fingerprint match >= 0.8)."""
    fps = load_fingerprints()
    if fps is None or known is None:
        return []
    done = []
    for m in prog.modules.values():
        scopes = [(None, m.functions, m.relpath + ":")]
        for c in m.classes.values():
            scopes.append((c, c.methods, c.name + "."))
        for cls, table, prefix in scopes:
            missing = [k[len(prefix):] for k in fps if k.startswith(prefix) and k[len(prefix):] not in table
                       and (cls is not None or ":" in k)]
            if cls is not None:
                missing = [n for n in missing if (prefix + n) in fps]
            unknown = [n for n in table if (prefix + n) not in fps and n not in known]
            if not missing or not unknown:
                continue
            for old in missing:
                if not old.startswith("_") or old.startswith("__"):
                    continue   # only private helpers may be renamed without changing the public API
                best, score = None, 0.0
                for new in unknown:
                    a, b = fps[prefix + old], fingerprint(table[new].node)
                    if not a or not b:
                        continue
                    j = len(a & b) / float(len(a | b))
                    if j > score:
                        best, score = new, j
                if best is not None and score >= 0.8:
                    # rename definition and all references in the package
                    f = table.pop(best)
                    f.node.name = old
                    f.name = old
                    f.qualname = f.qualname[: -len(best)] + old
                    table[old] = f
                    unknown.remove(best)
                    for mm in prog.modules.values():
                        _RenameRefs(best, old).visit(mm.tree)
                    done.append("%s%s -> %s (similarity %.2f)" % (prefix, best, old, score))
    return done


# ---------------------------------------------------------------------------------------- P12 (local un-rename)
def _own_nodes(fnode):
    """Nodes of a function's own scope in source order (nested function / class bodies excluded, their def statement included)."""
    out = []
    stack = list(reversed(fnode.body))
    todo = list(fnode.body)
    def rec(n):
        out.append(n)
        if isinstance(n, (ast.FunctionDef, ast.AsyncFunctionDef, ast.ClassDef, ast.Lambda)):
            return
        for c in ast.iter_child_nodes(n):
            rec(c)
    for st in fnode.body:
        rec(st)
    return out


def _value_sig(v):
    if v is None:
        return "none"
    if isinstance(v, ast.Call):
        f = v.func
        return "call:" + (f.attr if isinstance(f, ast.Attribute) else f.id if isinstance(f, ast.Name) else "?")
    if isinstance(v, ast.Constant):
        return "const:" + type(v.value).__name__
    return type(v).__name__


def scope_bindings(fnode):
    """[(name, signature)] of the names bound in this function's own scope, in order of first binding.
    Parameters come first (signature 'param'); comprehension targets are listed too (they are renamed with the scope)."""
    seen, out = set(), []

    def add(name, sig):
        if name not in seen:
            seen.add(name)
            out.append((name, sig))
    a = fnode.args
    for x in a.posonlyargs + a.args + ([a.vararg] if a.vararg else []) + a.kwonlyargs + ([a.kwarg] if a.kwarg else []):
        add(x.arg, "param")

    def targets(t, sig):
        if isinstance(t, ast.Name):
            add(t.id, sig)
        elif isinstance(t, (ast.Tuple, ast.List)):
            for i, e in enumerate(t.elts):
                targets(e, sig + "[%d]" % i)
        elif isinstance(t, ast.Starred):
            targets(t.value, sig + "*")
    for n in _own_nodes(fnode):
        if isinstance(n, ast.Assign):
            for t in n.targets:
                targets(t, "assign:" + _value_sig(n.value))
        elif isinstance(n, ast.AnnAssign) and n.value is not None:
            targets(n.target, "assign:" + _value_sig(n.value))
        elif isinstance(n, ast.AugAssign):
            targets(n.target, "aug")
        elif isinstance(n, (ast.For, ast.AsyncFor)):
            targets(n.target, "for:" + _value_sig(n.iter))
        elif isinstance(n, ast.comprehension):
            targets(n.target, "comp:" + _value_sig(n.iter))
        elif isinstance(n, (ast.With, ast.AsyncWith)):
            for it in n.items:
                if it.optional_vars is not None:
                    targets(it.optional_vars, "with")
        elif isinstance(n, ast.ExceptHandler) and n.name:
            add(n.name, "except")
        elif isinstance(n, (ast.FunctionDef, ast.AsyncFunctionDef)):
            add(n.name, "def")
        elif isinstance(n, ast.NamedExpr):
            targets(n.target, "walrus")
    return out


def _nested_defs(fnode):
    return [n for n in _own_nodes(fnode) if isinstance(n, (ast.FunctionDef, ast.AsyncFunctionDef))]


def _name_free_for(fnode, name):
    """May `name` be given to a local of fnode's own scope?  Yes when it occurs neither in the scope itself nor in a nested
    function that does not bind it (a nested function with its own binding of the name is unaffected)."""
    for n in _own_nodes(fnode):
        if isinstance(n, ast.Name) and n.id == name:
            return False
        if isinstance(n, ast.ExceptHandler) and n.name == name:
            return False
        if isinstance(n, (ast.FunctionDef, ast.AsyncFunctionDef)):
            if n.name == name:
                return False
            if name in {b for b, _ in scope_bindings(n)}:
                continue
            if not _name_free_for(n, name):
                return False
            for d in n.args.defaults + [x for x in n.args.kw_defaults if x is not None]:
                if any(isinstance(x, ast.Name) and x.id == name for x in ast.walk(d)):
                    return False
        if isinstance(n, ast.Lambda) and any(isinstance(x, ast.Name) and x.id == name for x in ast.walk(n)):
            return False
    for a in fnode.args.posonlyargs + fnode.args.args + fnode.args.kwonlyargs + ([fnode.args.vararg] if fnode.args.vararg else []) + ([fnode.args.kwarg] if fnode.args.kwarg else []):
        if a.arg == name:
            return False
    return True


def _all_names(fnode):
    names = set()
    for n in ast.walk(fnode):
        if isinstance(n, ast.Name):
            names.add(n.id)
        elif isinstance(n, ast.arg):
            names.add(n.arg)
        elif isinstance(n, ast.ExceptHandler) and n.name:
            names.add(n.name)
        elif isinstance(n, (ast.FunctionDef, ast.AsyncFunctionDef)):
            names.add(n.name)
    return names


class _AlphaRename(ast.NodeTransformer):
    """Consistent renaming of local names inside one function; stops at nested functions that bind the name themselves."""
    def __init__(self, mapping):
        self.mapping = dict(mapping)

    def _sub(self, mapping):
        return _AlphaRename(mapping)

    def visit_Name(self, n):
        if n.id in self.mapping:
            n.id = self.mapping[n.id]
        return n

    def visit_arg(self, n):
        if n.arg in self.mapping:
            n.arg = self.mapping[n.arg]
        return n

    def visit_ExceptHandler(self, n):
        if n.name in self.mapping:
            n.name = self.mapping[n.name]
        self.generic_visit(n)
        return n

    def visit_keyword(self, n):
        # keyword names at call sites are not local names
        n.value = self.visit(n.value)
        return n

    def _nested(self, n):
        bound = {name for name, _ in scope_bindings(n)}
        inner = {k: v for k, v in self.mapping.items() if k not in bound}
        if n.name in self.mapping:
            n.name = self.mapping[n.name]
        n.args.defaults = [self.visit(d) for d in n.args.defaults]
        n.args.kw_defaults = [self.visit(d) if d is not None else None for d in n.args.kw_defaults]
        if inner:
            sub = self._sub(inner)
            n.body = [sub.visit(st) for st in n.body]
        return n

    visit_FunctionDef = _nested
    visit_AsyncFunctionDef = _nested


def write_locals(prog):
    out = {}

    def rec(key, node):
        out[key] = [[n, s] for n, s in scope_bindings(node)]
        for d in _nested_defs(node):
            rec(key + "/" + d.name, d)
    for m in prog.modules.values():
        out[m.relpath + ":<module>"] = sorted({t.id for st in m.tree.body if isinstance(st, ast.Assign) for t in st.targets if isinstance(t, ast.Name)})
        for name, f in m.functions.items():
            rec(m.relpath + ":" + name, f.node)
        for c in m.classes.values():
            out[c.name + ".<class>"] = sorted({t.id for st in c.node.body if isinstance(st, ast.Assign) for t in st.targets if isinstance(t, ast.Name)})
            for name, f in c.methods.items():
                rec(c.name + "." + name, f.node)
    json.dump(out, open(os.path.join(HERE, "known_locals.json"), "w"), indent=0)
    return len(out)


def load_locals():
    try:
        return json.load(open(os.path.join(HERE, "known_locals.json")))
    except Exception:
        return None


def unrename_locals(prog):
    """P12: a local variable that vanished from the frozen binding list of a function while a new one with the same kind of
    binding appeared at the corresponding place is treated as renamed, and gets its known name back (alpha-renaming:
    the restored name is not otherwise used in the function, so nothing the function computes changes)."""
    import difflib
    ref = load_locals()
    if ref is None:
        return []
    done = []

    def rec(key, node):
        want = ref.get(key)
        if want is None:
            return
        cur = scope_bindings(node)
        ref_names = [n for n, _ in want]
        cur_names = [n for n, _ in cur]
        vanished = [(n, s) for n, s in want if n not in cur_names]
        new = [(n, s) for n, s in cur if n not in ref_names]
        if vanished and new:
            used = _all_names(node)
            # align by position among the surviving names first (equal-length gaps), then by binding signature
            mapping = {}
            sm = difflib.SequenceMatcher(None, ref_names, cur_names, autojunk=False)
            for tag, i1, i2, j1, j2 in sm.get_opcodes():
                if tag == "replace":
                    a, b = want[i1:i2], cur[j1:j2]
                    if len(a) == len(b):
                        for (ro, rs), (cn, cs) in zip(a, b):
                            if rs.split(":")[0] == cs.split(":")[0]:
                                mapping[cn] = ro
                    else:
                        sm2 = difflib.SequenceMatcher(None, [s_ for _, s_ in a], [s_ for _, s_ in b], autojunk=False)
                        for blk in sm2.get_matching_blocks():
                            for d_ in range(blk.size):
                                mapping[b[blk.b + d_][0]] = a[blk.a + d_][0]
            mapping = {k: v for k, v in mapping.items() if k != v and (v not in used or _name_free_for(node, v)) and k in dict(new) and v in dict(vanished)}
            # one-to-one
            inv = {}
            for k, v in list(mapping.items()):
                if v in inv:
                    del mapping[k]
                else:
                    inv[v] = k
            if mapping:
                r = _AlphaRename(mapping)
                node.args = r.visit(node.args)
                node.body = [r.visit(st) for st in node.body]
                done.append("%s: %s" % (key, ", ".join("%s -> %s" % kv for kv in sorted(mapping.items()))))
        for d in _nested_defs(node):
            rec(key + "/" + d.name, d)
    for m in prog.modules.values():
        for name, f in m.functions.items():
            rec(m.relpath + ":" + name, f.node)
        for c in m.classes.values():
            for name, f in c.methods.items():
                rec(c.name + "." + name, f.node)
    return done


# ---------------------------------------------------------------------------------------- P13 (new pure locals are inlined)
PURE_CALLS = {"len", "range", "list", "tuple", "zip", "enumerate", "sorted", "dict", "set", "min", "max", "sum", "abs", "isinstance", "hasattr", "bool", "int", "float",
              "vertcat", "horzcat", "veccat", "vvcat", "vcat", "hcat", "MX", "DM", "repmat", "reversed", "any", "all",
              "depends_on", "symvar", "is_equal", "str", "repr", "getattr", "type", "partial", "product"}


PURE_METHODS = {"numel", "nnz", "size1", "size2", "sparsity", "name", "dim", "keys", "values", "items", "get", "index", "count", "is_scalar", "is_symbolic", "is_constant",
                "is_column", "is_row", "is_vector", "is_empty", "is_one", "is_zero", "size", "rows", "columns"}


def _is_pure(v):
    """Expression without side effects whose value depends only on the names / attribute paths it reads."""
    for n in ast.walk(v):
        if isinstance(n, ast.Call):
            f = n.func
            if isinstance(f, ast.Attribute) and f.attr in PURE_METHODS and not n.keywords:
                continue
            nm = f.id if isinstance(f, ast.Name) else (f.attr if isinstance(f, ast.Attribute) and isinstance(f.value, ast.Name) and f.value.id in ("ca", "casadi", "np", "numpy") else None)
            if nm not in PURE_CALLS:
                return False
        elif isinstance(n, (ast.Await, ast.Yield, ast.YieldFrom, ast.NamedExpr, ast.Lambda)):
            return False
    return True


def _read_roots(v):
    roots = set()
    for n in ast.walk(v):
        if isinstance(n, ast.Name) and isinstance(n.ctx, ast.Load):
            roots.add(n.id)
    return roots


def _read_paths(v):
    """Maximal attribute paths read by v, as text (self.U, stage._method, ...): prefixes of a longer path are not listed."""
    out = set()
    inner = set()
    for n in ast.walk(v):
        if isinstance(n, ast.Attribute):
            inner.add(id(n.value))
    for n in ast.walk(v):
        if isinstance(n, (ast.Attribute, ast.Name)) and id(n) not in inner:
            try:
                out.add(ast.unparse(n))
            except Exception:
                pass
    return out


class _Subst(ast.NodeTransformer):
    def __init__(self, name, value):
        self.name, self.value, self.count = name, value, 0

    def visit_Name(self, n):
        if n.id == self.name and isinstance(n.ctx, ast.Load):
            self.count += 1
            return copy.deepcopy(self.value)
        return n

    def visit_keyword(self, n):
        n.value = self.visit(n.value)
        return n


def _stmt_lists(node):
    for n in ast.walk(node):
        for fld in ("body", "orelse", "finalbody"):
            l = getattr(n, fld, None)
            if isinstance(l, list) and l and isinstance(l[0], ast.stmt):
                yield l
        if isinstance(n, ast.Try):
            for h in n.handlers:
                yield h.body


def _mutated_paths(st):
    """(rebound paths, containers/objects changed in place) by a statement: `a.b = v` rebinds a.b; `a.b[i] = v`, `a.b.append(x)`
    change the object a.b; loop targets and deletions count as rebinding."""
    MUT = ("append", "extend", "insert", "pop", "remove", "clear", "update", "setdefault", "sort", "reverse", "popitem", "move_to_end", "add", "discard")
    rebound, changed = set(), set()

    def target(t):
        if isinstance(t, (ast.Tuple, ast.List)):
            for e in t.elts:
                target(e)
        elif isinstance(t, ast.Starred):
            target(t.value)
        elif isinstance(t, (ast.Name, ast.Attribute)):
            rebound.add(ast.unparse(t))
        elif isinstance(t, ast.Subscript):
            base = t.value
            while isinstance(base, ast.Subscript):
                base = base.value
            changed.add(ast.unparse(base))
    for n in ast.walk(st):
        if isinstance(n, ast.Assign):
            for t in n.targets:
                target(t)
        elif isinstance(n, (ast.AugAssign, ast.AnnAssign)):
            target(n.target)
        elif isinstance(n, ast.Delete):
            for t in n.targets:
                target(t)
        elif isinstance(n, (ast.For, ast.AsyncFor, ast.comprehension)):
            target(n.target)
        elif isinstance(n, (ast.With, ast.AsyncWith)):
            for it in n.items:
                if it.optional_vars is not None:
                    target(it.optional_vars)
        elif isinstance(n, ast.Call) and isinstance(n.func, ast.Attribute) and n.func.attr in MUT:
            changed.add(ast.unparse(n.func.value))
    return rebound, changed


def _mutates(st, paths, roots, alias=False):
    """May the statement change what one of the paths denotes?  For an alias of an access path only a rebinding of the path (or of
    a prefix of it) matters; for any other pure expression a change in place of an object the path reaches into matters too."""
    rebound, changed = _mutated_paths(st)
    for p_ in paths:
        for m in rebound:
            if p_ == m or p_.startswith(m + ".") or p_.startswith(m + "["):
                return True
        if not alias:
            for m in changed:
                if p_ == m or p_.startswith(m + ".") or p_.startswith(m + "[") or m.startswith(p_ + ".") or m.startswith(p_ + "["):
                    return True
    return False


def inline_new_locals(prog):
    """P13: a local variable that is not in the frozen binding list of its function (i.e. introduced by a later edit), is
    assigned exactly once - a pure expression - in a statement list that also contains all its uses, and whose ingredients are
    not modified between the assignment and the last use, is replaced by its definition.  Module-level names that are new,
    private (leading underscore) and bound once to a literal / container of attribute paths are replaced likewise."""
    ref = load_locals()
    if ref is None:
        return []
    done = []

    def rec(key, fnode):
        want = ref.get(key)
        if want is not None:
            known = {n for n, _ in want}
            # P22: `a, b = x, y` with new local names on the left and no dependency between the two sides -> `a = x; b = y`
            for lst in list(_stmt_lists(fnode)):
                i_ = 0
                while i_ < len(lst):
                    st_ = lst[i_]
                    if isinstance(st_, ast.Assign) and len(st_.targets) == 1 and isinstance(st_.targets[0], ast.Tuple) and isinstance(st_.value, ast.Tuple) \
                            and len(st_.targets[0].elts) == len(st_.value.elts) and all(isinstance(t, ast.Name) and t.id not in known for t in st_.targets[0].elts):
                        names_ = {t.id for t in st_.targets[0].elts}
                        if len(names_) == len(st_.targets[0].elts) and not any(isinstance(x, ast.Name) and x.id in names_ for v in st_.value.elts for x in ast.walk(v)):
                            new_sts = [ast.copy_location(ast.Assign(targets=[t], value=v), st_) for t, v in zip(st_.targets[0].elts, st_.value.elts)]
                            lst[i_:i_ + 1] = new_sts
                            done.append("%s: tuple assignment of %s split" % (key, ", ".join(sorted(names_))))
                            i_ += len(new_sts)
                            continue
                    i_ += 1
            changed = True
            rounds = 0
            while changed and rounds < 80:
                changed = False
                rounds += 1
                binds = scope_bindings(fnode)
                for name, sig in binds:
                    if name in known or not sig.startswith("assign:") or "[" in sig:
                        continue
                    # exactly one binding in the whole function (nested scopes included)
                    stores = [n for n in ast.walk(fnode) if (isinstance(n, ast.Name) and n.id == name and isinstance(n.ctx, (ast.Store, ast.Del))) or (isinstance(n, ast.arg) and n.arg == name)]
                    if len(stores) != 1:
                        continue
                    host = None
                    for lst in _stmt_lists(fnode):
                        for i, st in enumerate(lst):
                            if isinstance(st, ast.Assign) and len(st.targets) == 1 and st.targets[0] is stores[0]:
                                host = (lst, i, st)
                    if host is None:
                        continue
                    lst, i, st = host
                    adjacent_temp = False
                    if not _is_pure(st.value):
                        # an extracted temporary: one use, in the very next statement, evaluated before anything else could run in between
                        nxt = lst[i + 1] if i + 1 < len(lst) else None
                        uses_nxt = sum(1 for n in ast.walk(nxt) if isinstance(n, ast.Name) and n.id == name and isinstance(n.ctx, ast.Load)) if nxt is not None else 0
                        total = sum(1 for n in ast.walk(fnode) if isinstance(n, ast.Name) and n.id == name and isinstance(n.ctx, ast.Load))
                        head = nxt.test if isinstance(nxt, (ast.If, ast.While)) else nxt.value if isinstance(nxt, (ast.Assign, ast.Expr, ast.Return, ast.AugAssign)) and nxt.value is not None else None
                        in_head = head is not None and sum(1 for n in ast.walk(head) if isinstance(n, ast.Name) and n.id == name) == 1
                        if not (uses_nxt == 1 and total == 1 and in_head) or any(isinstance(x, (ast.Await, ast.Yield, ast.YieldFrom, ast.Lambda)) for x in ast.walk(st.value)):
                            continue
                        adjacent_temp = True
                    # every use lies in the statements that follow in the same list
                    uses_total = sum(1 for n in ast.walk(fnode) if isinstance(n, ast.Name) and n.id == name and isinstance(n.ctx, ast.Load))
                    after = lst[i + 1:]
                    uses_after = sum(1 for s_ in after for n in ast.walk(s_) if isinstance(n, ast.Name) and n.id == name and isinstance(n.ctx, ast.Load))
                    if uses_total == 0 or uses_total != uses_after:
                        continue
                    # a freshly built mutable container keeps its identity: only a single, non-mutating use may be replaced
                    fresh = isinstance(st.value, (ast.List, ast.Dict, ast.Set, ast.ListComp, ast.DictComp, ast.SetComp)) or \
                        (isinstance(st.value, ast.Call) and isinstance(st.value.func, ast.Name) and st.value.func.id in ("list", "dict", "set", "sorted", "defaultdict", "OrderedDict"))
                    if fresh:
                        if any(_mutates(s_, {name}, None) for s_ in after):
                            continue
                        if uses_total != 1:
                            # a dict literal that is only handed on (f(**d), g(d, ..)) may be written out at each use
                            handed_on = isinstance(st.value, ast.Dict)
                            for s_ in after:
                                for n in ast.walk(s_):
                                    for ch in ast.iter_child_nodes(n):
                                        if isinstance(ch, ast.Name) and ch.id == name and not isinstance(n, (ast.Call, ast.keyword)):
                                            handed_on = False
                            # a list that is only iterated over (header of a loop / comprehension) may be written out at each use too
                            iter_uses = sum(1 for s_ in after for n in ast.walk(s_) if isinstance(n, (ast.comprehension, ast.For)) and isinstance(n.iter, ast.Name) and n.iter.id == name)
                            if not handed_on and iter_uses != uses_total:
                                continue
                    last = max(j for j, s_ in enumerate(after) if any(isinstance(n, ast.Name) and n.id == name for n in ast.walk(s_)))
                    paths = _read_paths(st.value) - {name}
                    simple = isinstance(st.value, (ast.Name, ast.Attribute, ast.Constant)) or (isinstance(st.value, ast.Subscript) and isinstance(st.value.slice, ast.Constant))
                    is_alias = isinstance(st.value, (ast.Name, ast.Attribute))
                    if not adjacent_temp and any(_mutates(s_, paths, None, alias=is_alias) for s_ in after[:last + 1]):
                        continue
                    # a big expression used many times is left alone (keeps the trees readable); aliases and single uses always go
                    is_partial = isinstance(st.value, ast.Call) and ast.unparse(st.value.func).split(".")[-1] == "partial"     # a curried callee is an alias of sorts
                    if not simple and uses_total > 3 and not is_partial:
                        continue
                    sub = _Subst(name, st.value)
                    for j in range(i + 1, len(lst)):
                        lst[j] = sub.visit(lst[j])
                    del lst[i]
                    if not lst:
                        lst.append(ast.Pass())
                    done.append("%s: %s (%d use%s)" % (key, name, sub.count, "" if sub.count == 1 else "s"))
                    changed = True
                    break
        for d in _nested_defs(fnode):
            rec(key + "/" + d.name, d)

    for m in prog.modules.values():
        # new private module-level constants
        known_mod = set(ref.get(m.relpath + ":<module>", []) or [])
        if (m.relpath + ":<module>") in ref:
            body = m.tree.body
            for st in list(body):
                if isinstance(st, ast.Assign) and len(st.targets) == 1 and isinstance(st.targets[0], ast.Name):
                    nm = st.targets[0].id
                    if nm in known_mod or not nm.startswith("_") or nm.startswith("__"):
                        continue
                    if sum(1 for n in ast.walk(m.tree) if isinstance(n, ast.Name) and n.id == nm and isinstance(n.ctx, ast.Store)) != 1:
                        continue
                    if not _is_pure(st.value) or any(isinstance(x, ast.Call) for x in ast.walk(st.value)):
                        continue
                    if any(isinstance(x, (ast.Dict, ast.Set, ast.ListComp, ast.DictComp, ast.SetComp)) for x in ast.walk(st.value)):
                        continue      # module-level mutable state is not a constant
                    sub = _Subst(nm, st.value)
                    for other in body:
                        if other is not st:
                            sub.visit(other)
                    if sub.count:
                        body.remove(st)
                        done.append("%s: module constant %s (%d uses)" % (m.relpath, nm, sub.count))
        for name, f in m.functions.items():
            rec(m.relpath + ":" + name, f.node)
        for c in m.classes.values():
            # new private class-level constants used as self.<NAME> / <Class>.<NAME>
            ckey = c.name + ".<class>"
            if ckey in ref:
                known_c = set(ref[ckey])
                class_consts = {t.id: copy.deepcopy(x.value) for x in c.node.body if isinstance(x, ast.Assign) and len(x.targets) == 1 for t in x.targets if isinstance(t, ast.Name)}
                for st in list(c.node.body):
                    if isinstance(st, ast.Assign) and len(st.targets) == 1 and isinstance(st.targets[0], ast.Name):
                        nm = st.targets[0].id
                        # a mutable display (dict / list / set) bound at class level is shared state, not a constant: never written out
                        if any(isinstance(x, (ast.Dict, ast.List, ast.Set, ast.ListComp, ast.DictComp, ast.SetComp)) for x in ast.walk(st.value)):
                            continue
                        if nm in known_c or not nm.startswith("_") or nm.startswith("__") or not _is_pure(st.value) or any(isinstance(x, ast.Call) for x in ast.walk(st.value)):
                            continue
                        # names of other class-level constants inside the value mean nothing inside a method: write their values out
                        # first (('point',) + _path_grids); a name that cannot be resolved this way keeps the constant where it is
                        def closed(v, depth=0):
                            class R(ast.NodeTransformer):
                                ok = True

                                def visit_Name(self, x):
                                    if x.id in class_consts and depth < 5:
                                        sub = closed(copy.deepcopy(class_consts[x.id]), depth + 1)
                                        if sub is None:
                                            R.ok = False
                                            return x
                                        return sub
                                    if x.id not in ("True", "False", "None", "inf", "nan"):
                                        R.ok = False
                                    return x
                            r = R()
                            out = r.visit(v)
                            return out if R.ok else None
                        value = closed(copy.deepcopy(st.value))
                        if value is None:
                            continue
                        if isinstance(value, ast.BinOp) and isinstance(value.op, ast.Add) and isinstance(value.left, ast.Tuple) and isinstance(value.right, ast.Tuple):
                            value = ast.Tuple(elts=value.left.elts + value.right.elts, ctx=ast.Load())
                        st.value = value
                        cnt = 0
                        for fn in c.methods.values():
                            for n in ast.walk(fn.node):
                                for fld, val in ast.iter_fields(n):
                                    vals = val if isinstance(val, list) else [val]
                                    for idx, x in enumerate(vals):
                                        if isinstance(x, ast.Attribute) and x.attr == nm and isinstance(x.value, ast.Name) and x.value.id in ("self", c.name, "cls") and isinstance(x.ctx, ast.Load):
                                            new = copy.deepcopy(st.value)
                                            if isinstance(val, list):
                                                val[idx] = new
                                            else:
                                                setattr(n, fld, new)
                                            cnt += 1
                        # read through another receiver (stage._NAME in a method class): same constant, provided the name is bound at class
                        # level in this class only and never stored as an attribute anywhere
                        elsewhere = any(isinstance(x, ast.Assign) and any(isinstance(t, ast.Name) and t.id == nm for t in x.targets) for k2 in prog.classes.values() if k2 is not c for x in k2.node.body)
                        stored = any(isinstance(x, ast.Attribute) and x.attr == nm and isinstance(x.ctx, (ast.Store, ast.Del)) for m2 in prog.modules.values() for x in ast.walk(m2.tree))
                        if not elsewhere and not stored:
                            for m2 in prog.modules.values():
                                for n in ast.walk(m2.tree):
                                    for fld, val in ast.iter_fields(n):
                                        vals = val if isinstance(val, list) else [val]
                                        for idx, x in enumerate(vals):
                                            if isinstance(x, ast.Attribute) and x.attr == nm and isinstance(x.value, ast.Name) and isinstance(x.ctx, ast.Load):
                                                new = copy.deepcopy(st.value)
                                                if isinstance(val, list):
                                                    val[idx] = new
                                                else:
                                                    setattr(n, fld, new)
                                                cnt += 1
                        if cnt:
                            c.node.body.remove(st)
                            done.append("%s: class constant %s (%d uses)" % (c.name, nm, cnt))
            for name, f in c.methods.items():
                rec(c.name + "." + name, f.node)
    return done


# ---------------------------------------------------------------------------------------- P19 (index lists spliced into generators)
class _RenameLoads(ast.NodeTransformer):
    def __init__(self, mapping):
        self.mapping = mapping

    def visit_Name(self, n):
        if n.id in self.mapping:
            return ast.copy_location(ast.Name(id=self.mapping[n.id], ctx=n.ctx), n)
        return n


def splice_index_lists(prog):
    """P19: `idx = [(a, b) for a in A for b in B]` followed by comprehensions `[.. for x, y in idx ..]` -> the generators of the
    definition take the place of the generator over idx (variables renamed to x, y); a definition without remaining uses is dropped."""
    done = []
    for m in prog.modules.values():
        for f in [n for n in ast.walk(m.tree) if isinstance(n, (ast.FunctionDef, ast.AsyncFunctionDef))]:
            for _ in range(6):
                changed = False
                defs = {}
                for lst in _stmt_lists(f):
                    for st in lst:
                        if isinstance(st, ast.Assign) and len(st.targets) == 1 and isinstance(st.targets[0], ast.Name) and isinstance(st.value, ast.ListComp) \
                                and isinstance(st.value.elt, ast.Tuple) and all(isinstance(e, ast.Name) for e in st.value.elt.elts):
                            nm = st.targets[0].id
                            bound = [t.id for g in st.value.generators for t in ast.walk(g.target) if isinstance(t, ast.Name)]
                            names = [e.id for e in st.value.elt.elts]
                            stores = sum(1 for n in ast.walk(f) if isinstance(n, ast.Name) and n.id == nm and isinstance(n.ctx, ast.Store))
                            if stores == 1 and set(names) <= set(bound) and len(set(names)) == len(names) and all(_is_pure(g.iter) and all(_is_pure(i) for i in g.ifs) for g in st.value.generators) \
                                    and not any(isinstance(n, ast.Name) and n.id == nm for g in st.value.generators for n in ast.walk(g.iter)):
                                defs[nm] = (st, lst, names, bound)
                if not defs:
                    break
                for comp in [n for n in ast.walk(f) if isinstance(n, (ast.ListComp, ast.GeneratorExp, ast.SetComp, ast.DictComp))]:
                    for gi, g in enumerate(comp.generators):
                        if isinstance(g.iter, ast.Name) and g.iter.id in defs and isinstance(g.target, ast.Tuple) and all(isinstance(e, ast.Name) for e in g.target.elts):
                            st, lst, names, bound = defs[g.iter.id]
                            if comp is st.value or len(g.target.elts) != len(names):
                                continue
                            mapping = {old_: new_.id for old_, new_ in zip(names, g.target.elts)}
                            # variables of the definition that are not part of the tuple keep a private name
                            for b in bound:
                                if b not in mapping:
                                    mapping[b] = "%s__%s" % (b, g.iter.id)
                            new_gens = []
                            for dg in st.value.generators:
                                ng = copy.deepcopy(dg)
                                r = _RenameLoads(mapping)
                                ng.target = r.visit(ng.target)
                                ng.iter = r.visit(ng.iter)
                                ng.ifs = [r.visit(i) for i in ng.ifs]
                                new_gens.append(ng)
                            new_gens[-1].ifs = new_gens[-1].ifs + g.ifs
                            comp.generators[gi:gi + 1] = new_gens
                            changed = True
                            done.append("%s: %s" % (f.name, g.iter.id))
                            break
                # drop definitions that are no longer read
                for nm, (st, lst, names, bound) in defs.items():
                    if not any(isinstance(n, ast.Name) and n.id == nm and isinstance(n.ctx, ast.Load) for n in ast.walk(f)):
                        if st in lst:
                            lst.remove(st)
                            if not lst:
                                lst.append(ast.Pass())
                            changed = True
                if not changed:
                    break
    return done


# ---------------------------------------------------------------------------------------- P29 (zip / enumerate over the method's lists -> index loops)
# lengths of the lists of a transcription method (position kinds); the layout rules (R01.8, R02.8, R07.7: check_len) verify them on
# every run by interpretation, so this pass may rely on them
LIST_LEN = {"self.X": "self.N+1", "self.Q": "self.N+1", "self.Z": "self.N+1", "self.t0_local": "self.N+1", "self.control_grid": "self.N+1",
            "self.U": "self.N", "self.Z0": "self.N", "self.T_local": "self.N", "self.integrator_grid": "self.N",
            "self.Xc": "self.N", "self.Zc": "self.N", "self.xr": "self.N", "self.zr": "self.N", "self.tr": "self.N"}
LIST_LEN2 = {"self.Xc": "self.M", "self.Zc": "self.M", "self.xr": "self.M", "self.zr": "self.M", "self.tr": "self.M"}
_ORDER = {"self.M": 0, "self.N": 1, "self.N+1": 2}


def _seq_info(e, local_len):
    """(base expression text, index offset, length text) of an iterable whose length is known, else None."""
    off = 0
    if isinstance(e, ast.Subscript) and isinstance(e.slice, ast.Slice) and e.slice.upper is None and e.slice.step is None and isinstance(e.slice.lower, ast.Constant) and e.slice.lower.value == 1:
        inner = _seq_info(e.value, local_len)
        if inner and inner[2] == "self.N+1" and inner[1] == 0:
            return inner[0], 1, "self.N"
        return None
    t = ast.unparse(e)
    if t in LIST_LEN:
        return t, 0, LIST_LEN[t]
    if isinstance(e, ast.Subscript) and not isinstance(e.slice, (ast.Slice, ast.Tuple)) and ast.unparse(e.value) in LIST_LEN2:
        return t, 0, LIST_LEN2[ast.unparse(e.value)]
    if isinstance(e, ast.Name) and e.id in local_len:
        return e.id, 0, local_len[e.id]
    return None


class _SubstNames(ast.NodeTransformer):
    def __init__(self, mapping):
        self.mapping = mapping

    def visit_Name(self, n):
        if n.id in self.mapping and isinstance(n.ctx, ast.Load):
            return copy.deepcopy(self.mapping[n.id])
        return n


def index_zip_loops(prog):
    """P29: `for k, (x, u) in enumerate(zip(self.X, self.U))` -> `for k in range(self.N)` with x -> self.X[k], u -> self.U[k]
    (likewise plain zip, enumerate of one list, a `[1:]` view, the second level `zip(self.Xc[k], self.Zc[k])`, and a local list
    that received exactly one element per round of an earlier loop of known length)."""
    done = []
    for m in prog.modules.values():
        for cls in m.classes.values():
            for fi in cls.methods.values():
                f = fi.node
                local_len = {}
                changed = True
                rounds = 0
                while changed and rounds < 10:
                    changed = False
                    rounds += 1
                    # local lists filled once per round of a range(self.N) / range(self.M) loop
                    for st in ast.walk(f):
                        if isinstance(st, ast.For) and isinstance(st.iter, ast.Call) and isinstance(st.iter.func, ast.Name) and st.iter.func.id == "range" and len(st.iter.args) == 1 \
                                and ast.unparse(st.iter.args[0]) in ("self.N", "self.M"):
                            for b in st.body:
                                if isinstance(b, ast.Expr) and isinstance(b.value, ast.Call) and isinstance(b.value.func, ast.Attribute) and b.value.func.attr == "append" and isinstance(b.value.func.value, ast.Name):
                                    nm = b.value.func.value.id
                                    apps = [x for x in ast.walk(f) if isinstance(x, ast.Call) and isinstance(x.func, ast.Attribute) and x.func.attr in ("append", "extend", "insert", "pop") and isinstance(x.func.value, ast.Name) and x.func.value.id == nm]
                                    inits = [x for x in ast.walk(f) if isinstance(x, ast.Assign) and len(x.targets) == 1 and isinstance(x.targets[0], ast.Name) and x.targets[0].id == nm]
                                    if len(apps) == 1 and len(inits) == 1 and isinstance(inits[0].value, ast.List) and not inits[0].value.elts:
                                        local_len[nm] = ast.unparse(st.iter.args[0])
                    for st in [x for x in ast.walk(f) if isinstance(x, ast.For)]:
                        it, tgt = st.iter, st.target
                        idx_name, elem_t = None, tgt
                        if isinstance(it, ast.Call) and isinstance(it.func, ast.Name) and it.func.id == "enumerate" and len(it.args) == 1 and isinstance(tgt, ast.Tuple) and len(tgt.elts) == 2 and isinstance(tgt.elts[0], ast.Name):
                            idx_name, elem_t, it = tgt.elts[0].id, tgt.elts[1], it.args[0]
                        seqs = None
                        if isinstance(it, ast.Call) and isinstance(it.func, ast.Name) and it.func.id == "zip" and it.args and not it.keywords and isinstance(elem_t, ast.Tuple) and len(elem_t.elts) == len(it.args):
                            seqs = list(zip(elem_t.elts, it.args))
                        elif idx_name is not None or _seq_info(it, local_len) is not None:
                            if idx_name is None and not (isinstance(it, ast.Name) or ast.unparse(it) in LIST_LEN):
                                pass
                            if idx_name is not None:
                                seqs = [(elem_t, it)]
                        if not seqs or not all(isinstance(t_, ast.Name) for t_, _ in seqs):
                            continue
                        infos = [_seq_info(e_, local_len) for _, e_ in seqs]
                        if any(i_ is None for i_ in infos):
                            continue
                        length = min((i_[2] for i_ in infos), key=lambda x: _ORDER[x])
                        names = [t_.id for t_, _ in seqs]
                        # the element names must not be rebound in the loop
                        if any(isinstance(x, ast.Name) and x.id in names and isinstance(x.ctx, (ast.Store, ast.Del)) for b in st.body + st.orelse for x in ast.walk(b)):
                            continue
                        if idx_name is None:
                            used = _all_names(f)
                            idx_name = "i" if length == "self.M" else "k"
                            while idx_name in used:
                                idx_name += "_"
                        mapping = {}
                        for (t_, _), (base, off, _l) in zip(seqs, infos):
                            idx = ast.Name(id=idx_name, ctx=ast.Load()) if off == 0 else ast.BinOp(left=ast.Name(id=idx_name, ctx=ast.Load()), op=ast.Add(), right=ast.Constant(value=off))
                            mapping[t_.id] = ast.Subscript(value=ast.parse(base, mode="eval").body, slice=idx, ctx=ast.Load())
                        sub = _SubstNames(mapping)
                        st.body = [sub.visit(b) for b in st.body]
                        st.orelse = [sub.visit(b) for b in st.orelse]
                        st.target = ast.copy_location(ast.Name(id=idx_name, ctx=ast.Store()), st.target)
                        st.iter = ast.copy_location(ast.parse("range(%s)" % length, mode="eval").body, st.iter)
                        done.append("%s.%s: %s" % (cls.name, fi.name, ", ".join(names)))
                        changed = True
                        break
    return done


# ---------------------------------------------------------------------------------------- P23 (arguments of defaulted parameters by keyword)
def keyword_defaults(prog):
    """P23: in calls of a repository class (constructor) or of a method / function whose name has one signature in the whole
    package, an argument bound to a parameter WITH a default is written as a keyword argument (in signature order after the
    positional ones); arguments of parameters without default stay positional.  `B(C, xi, d, T, True)` and
    `B(C, xi, d, T=T, parametric=True)` get one form."""
    sigs = {}

    def sig_of(fnode, drop_self):
        a = fnode.args
        if a.vararg or a.posonlyargs:
            return None
        names = [x.arg for x in a.args]
        nd = len(a.defaults)
        if drop_self:
            if not names:
                return None
            names = names[1:]
        return (tuple(names), nd)
    for m in prog.modules.values():
        for c in m.classes.values():
            init = c.methods.get("__init__")
            if init is not None:
                sigs.setdefault(("class", c.name), set()).add(sig_of(init.node, True))
            for name, f in c.methods.items():
                if name.startswith("__"):
                    continue
                is_static = any(isinstance(d, ast.Name) and d.id == "staticmethod" for d in f.node.decorator_list)
                sigs.setdefault(("method", name), set()).add(sig_of(f.node, not is_static))
        for name, f in m.functions.items():
            sigs.setdefault(("func", name), set()).add(sig_of(f.node, False))
    count = 0
    for m in prog.modules.values():
        for n in ast.walk(m.tree):
            if not isinstance(n, ast.Call) or any(isinstance(a, ast.Starred) for a in n.args) or any(k.arg is None for k in n.keywords):
                continue
            key = None
            if isinstance(n.func, ast.Name):
                key = ("class", n.func.id) if ("class", n.func.id) in sigs else (("func", n.func.id) if ("func", n.func.id) in sigs and n.func.id in m.functions else None)
            elif isinstance(n.func, ast.Attribute) and isinstance(n.func.value, ast.Name) and n.func.value.id == "self":
                key = ("method", n.func.attr) if ("method", n.func.attr) in sigs else None
            if key is None or key[0] != "class":
                # methods and functions: the rules read their arguments by position (get_p_control_at(stage, k)); only constructors are normalised
                continue
            ss = sigs[key]
            if len(ss) != 1 or None in ss:
                continue
            names, nd = next(iter(ss))
            npos = len(names) - nd
            if len(n.args) <= npos or len(n.args) > len(names):
                continue
            extra = n.args[npos:]
            kws = [ast.keyword(arg=names[npos + i], value=v) for i, v in enumerate(extra)]
            if {k.arg for k in kws} & {k.arg for k in n.keywords}:
                continue
            n.args = n.args[:npos]
            n.keywords = kws + n.keywords
            count += 1
    return count


# ---------------------------------------------------------------------------------------- P21 (guard clauses re-nested)
def _always_exits(stmts):
    if not stmts:
        return False
    last = stmts[-1]
    if isinstance(last, (ast.Return, ast.Raise, ast.Continue, ast.Break)):
        return True
    if isinstance(last, ast.If) and last.orelse:
        return _always_exits(last.body) and _always_exits(last.orelse)
    return False


def renest_guard_clauses(tree):
    """P21: `if c: ..; <exit>` followed by more statements of the same list -> `if c: ..; <exit>  else: <those statements>`.
    (<exit> = return / raise / continue / break at the end of every path of the branch.)  Together with P20 an early-exit guard and
    the nested if/else it abbreviates get one form."""
    count = 0
    for n in ast.walk(tree):
        for fld in ("body", "orelse", "finalbody"):
            lst = getattr(n, fld, None)
            if not (isinstance(lst, list) and lst and isinstance(lst[0], ast.stmt)):
                continue
            i = 0
            while i < len(lst) - 1:
                st = lst[i]
                if isinstance(st, ast.If) and not st.orelse and _always_exits(st.body):
                    st.orelse = lst[i + 1:]
                    del lst[i + 1:]
                    count += 1
                    break
                i += 1
    return count


def _negated(t):
    if isinstance(t, ast.UnaryOp) and isinstance(t.op, ast.Not):
        return t.operand
    if isinstance(t, ast.Compare) and len(t.ops) == 1 and type(t.ops[0]) in _NEG:
        return ast.copy_location(ast.Compare(left=t.left, ops=[_NEG[type(t.ops[0])]()], comparators=t.comparators), t)
    return ast.copy_location(ast.UnaryOp(op=ast.Not(), operand=t), t)


def flatten_else_after_exit(tree):
    """P33: `if c: ..; <exit>  else: B` -> `if c: ..; <exit>` followed by B (the else of a branch that always leaves is the rest of
    the block).  elif chains are flattened from the top."""
    count = 0
    changed = True
    while changed:
        changed = False
        for n in ast.walk(tree):
            for fld in ("body", "orelse", "finalbody"):
                lst = getattr(n, fld, None)
                if not (isinstance(lst, list) and lst and isinstance(lst[0], ast.stmt)):
                    continue
                in_chain = fld == "orelse" and isinstance(n, ast.If) and len(lst) == 1      # a member of an if/elif chain keeps its place in the chain
                for i, st in enumerate(lst):
                    if isinstance(st, ast.If) and st.orelse and not in_chain and not (len(st.orelse) == 1 and isinstance(st.orelse[0], ast.If)):
                        neg = (isinstance(st.test, ast.UnaryOp) and isinstance(st.test.op, ast.Not)) or \
                            (isinstance(st.test, ast.Compare) and len(st.test.ops) == 1 and isinstance(st.test.ops[0], (ast.NotEq, ast.NotIn, ast.IsNot)))
                        be, oe = _always_exits(st.body), _always_exits(st.orelse)
                        # only the else branch leaves: it becomes the guard clause.  Both branches leave: the shorter one goes first (a raise
                        # before anything else on equal length) - that is the guard-clause spelling; on a tie the positive test goes first
                        swap = oe and not be
                        if be and oe:
                            kb = (len(st.body), 0 if isinstance(st.body[-1], ast.Raise) else 1)
                            ko = (len(st.orelse), 0 if isinstance(st.orelse[-1], ast.Raise) else 1)
                            swap = ko < kb or (ko == kb and neg)
                        if swap:
                            st.test = _negated(st.test)
                            st.body, st.orelse = st.orelse, st.body
                            count += 1
                    # the flat spelling of the same thing: `if T: X <exit>` followed by the rest of the block, which leaves too - ordered
                    # by the same key, so that `if c: A else: B`, `if not c: B else: A`, `if c: A` + B and `if not c: B` + A are one form
                    if isinstance(st, ast.If) and not st.orelse and not in_chain and _always_exits(st.body) and i + 1 < len(lst) and _always_exits(lst[i + 1:]) \
                            and not any(isinstance(x, (ast.FunctionDef, ast.ClassDef)) for x in lst[i + 1:]):
                        neg = (isinstance(st.test, ast.UnaryOp) and isinstance(st.test.op, ast.Not)) or \
                            (isinstance(st.test, ast.Compare) and len(st.test.ops) == 1 and isinstance(st.test.ops[0], (ast.NotEq, ast.NotIn, ast.IsNot)))
                        rest = lst[i + 1:]
                        kb = (len(st.body), 0 if isinstance(st.body[-1], ast.Raise) else 1)
                        ko = (len(rest), 0 if isinstance(rest[-1], ast.Raise) else 1)
                        if ko < kb or (ko == kb and neg):
                            body = st.body
                            st.test = _negated(st.test)
                            st.body = rest
                            lst[i + 1:] = body
                            count += 1
                    if isinstance(st, ast.If) and st.orelse and not in_chain and _always_exits(st.body):
                        rest = st.orelse
                        st.orelse = []
                        lst[i + 1:i + 1] = rest
                        count += 1
                        changed = True
                        break
    return count


# ---------------------------------------------------------------------------------------- P1 / P2 / P3
def _is_list_literal(v):
    return isinstance(v, ast.List) and not any(isinstance(e, ast.Starred) for e in v.elts)


def _same_target(a, b):
    return ast.dump(a) == ast.dump(b)


_NEG = {ast.In: ast.NotIn, ast.NotIn: ast.In, ast.Eq: ast.NotEq, ast.NotEq: ast.Eq, ast.Lt: ast.GtE, ast.GtE: ast.Lt, ast.Gt: ast.LtE, ast.LtE: ast.Gt, ast.Is: ast.IsNot, ast.IsNot: ast.Is}


def _is_boolean_expr(v):
    return isinstance(v, (ast.Compare, ast.BoolOp)) or (isinstance(v, ast.UnaryOp) and isinstance(v.op, ast.Not)) or \
        (isinstance(v, ast.Call) and isinstance(v.func, ast.Name) and v.func.id in ("isinstance", "hasattr", "bool", "any", "all"))


_CLASS_NAMES = set()


class _Canon(ast.NodeTransformer):
    def __init__(self):
        self.count = 0

    def _const_right(self, test):
        # P34: in a test position (if / while / conditional expression / assert: Python truth values, never a symbolic relation)
        # CONST == x -> x == CONST, CONST != x -> x != CONST
        for c in ast.walk(test):
            if isinstance(c, ast.Compare) and len(c.ops) == 1 and isinstance(c.ops[0], (ast.Eq, ast.NotEq)) and isinstance(c.left, ast.Constant) \
                    and not isinstance(c.comparators[0], ast.Constant):
                c.left, c.comparators = c.comparators[0], [c.left]
                self.count += 1

    def visit_comprehension(self, n):
        for t in n.ifs:
            self._const_right(t)
        self.generic_visit(n)
        return n

    @staticmethod
    def _product_args(it):
        """arguments of product(A, B, ..) / list(product(A, B, ..)), else None"""
        if isinstance(it, ast.Call) and isinstance(it.func, ast.Name) and it.func.id == "list" and len(it.args) == 1 and not it.keywords:
            it = it.args[0]
        if isinstance(it, ast.Call) and ast.unparse(it.func) in ("product", "itertools.product") and not it.keywords and len(it.args) >= 2 and not any(isinstance(a, ast.Starred) for a in it.args):
            return it.args
        return None

    def _names_generator(self, n):
        # P51: [.. for l in ('a', 'b') for e in getattr(o, l)] -> [.. for e in o.a + o.b]   (l used nowhere else)
        gens = list(n.generators)
        for q in range(len(gens) - 1):
            g, h = gens[q], gens[q + 1]
            if isinstance(g.target, ast.Name) and isinstance(g.iter, (ast.Tuple, ast.List)) and g.iter.elts and not g.ifs and not g.is_async \
                    and all(isinstance(e, ast.Constant) and isinstance(e.value, str) and e.value.isidentifier() for e in g.iter.elts) \
                    and isinstance(h.iter, ast.Call) and isinstance(h.iter.func, ast.Name) and h.iter.func.id == "getattr" and len(h.iter.args) == 2 \
                    and isinstance(h.iter.args[1], ast.Name) and h.iter.args[1].id == g.target.id:
                l = g.target.id
                others = [x for part in [n.elt if hasattr(n, "elt") else None] + [y for gg in gens[q + 1:] for y in [gg.target] + gg.ifs] + [gg.iter for gg in gens[q + 2:]] if part is not None
                          for x in ast.walk(part) if isinstance(x, ast.Name) and x.id == l]
                if others:
                    continue
                parts = [ast.Attribute(value=copy.deepcopy(h.iter.args[0]), attr=e.value, ctx=ast.Load()) for e in g.iter.elts]
                it = parts[0]
                for pp in parts[1:]:
                    it = ast.BinOp(left=it, op=ast.Add(), right=pp)
                h.iter = ast.copy_location(it, h.iter)
                n.generators = gens[:q] + gens[q + 1:]
                self.count += 1
                return self._names_generator(n)
        return n

    def _split_products(self, n):
        # P46: [.. for k, i in product(A, B)] -> [.. for k in A for i in B]
        gens = []
        for g in n.generators:
            args = self._product_args(g.iter)
            if args is not None and isinstance(g.target, ast.Tuple) and len(g.target.elts) == len(args) and not g.is_async:
                self.count += 1
                for q, (t, a) in enumerate(zip(g.target.elts, args)):
                    gens.append(ast.comprehension(target=t, iter=a, ifs=g.ifs if q == len(args) - 1 else [], is_async=0))
            else:
                gens.append(g)
        n.generators = gens
        return n

    def visit_IfExp(self, n):
        self._const_right(n.test)
        self.generic_visit(n)
        # P42: a conditional expression whose test folded to a constant is its branch
        if isinstance(n.test, ast.Constant) and isinstance(n.test.value, bool):
            self.count += 1
            return n.body if n.test.value else n.orelse
        return n

    def visit_While(self, n):
        self._const_right(n.test)
        self.generic_visit(n)
        return n

    def visit_Assert(self, n):
        self._const_right(n.test)
        self.generic_visit(n)
        return n

    def visit_Compare(self, n):
        # P14: B == True / B is True -> B;  B == False / B != True -> not B   (B syntactically boolean)
        self.generic_visit(n)
        # P42: 'name' in ('a', 'b') with constants on both sides folds
        if len(n.ops) == 1 and isinstance(n.ops[0], (ast.In, ast.NotIn)) and isinstance(n.left, ast.Constant) and isinstance(n.comparators[0], (ast.Tuple, ast.List, ast.Set)) \
                and all(isinstance(e, ast.Constant) for e in n.comparators[0].elts):
            r = n.left.value in [e.value for e in n.comparators[0].elts]
            self.count += 1
            return ast.copy_location(ast.Constant(value=r if isinstance(n.ops[0], ast.In) else not r), n)
        if len(n.ops) == 1 and isinstance(n.comparators[0], ast.Constant) and isinstance(n.comparators[0].value, bool) and _is_boolean_expr(n.left) \
                and isinstance(n.ops[0], (ast.Eq, ast.NotEq, ast.Is, ast.IsNot)):
            same = isinstance(n.ops[0], (ast.Eq, ast.Is)) == n.comparators[0].value
            self.count += 1
            if same:
                return n.left
            return self.visit(ast.copy_location(ast.UnaryOp(op=ast.Not(), operand=n.left), n))
        return n

    def _project(self, n):
        # P18: [a for (a, b, c) in L] -> [t[0] for t in L]  (single generator, tuple target, the element is one of its names,
        # the other names are unused)
        self.generic_visit(n)
        if len(n.generators) == 1 and isinstance(n.elt, ast.Name):
            g = n.generators[0]
            if isinstance(g.target, ast.Tuple) and all(isinstance(e, ast.Name) for e in g.target.elts) and not g.ifs:
                names = [e.id for e in g.target.elts]
                if names.count(n.elt.id) == 1:
                    idx = names.index(n.elt.id)
                    tv = "t_"
                    g.target = ast.copy_location(ast.Name(id=tv, ctx=ast.Store()), g.target)
                    n.elt = ast.copy_location(ast.Subscript(value=ast.Name(id=tv, ctx=ast.Load()), slice=ast.Constant(value=idx), ctx=ast.Load()), n.elt)
                    self.count += 1
        return n

    def _comp(self, n):
        n = self._project(n)
        n = self._split_products(n)
        return self._names_generator(n)

    visit_ListComp = _comp
    visit_GeneratorExp = _comp

    def visit_BinOp(self, n):
        # P27: [a] + [b, c] -> [a, b, c]
        self.generic_visit(n)
        if isinstance(n.op, ast.Add) and _is_list_literal(n.left) and _is_list_literal(n.right):
            self.count += 1
            return ast.copy_location(ast.List(elts=n.left.elts + n.right.elts, ctx=ast.Load()), n)
        return n

    def visit_UnaryOp(self, n):
        # P14: not (a OP b) -> a NEG(OP) b for a single comparison; not not B -> B
        self.generic_visit(n)
        if isinstance(n.op, ast.Not):
            v = n.operand
            if isinstance(v, ast.Compare) and len(v.ops) == 1 and type(v.ops[0]) in _NEG:
                self.count += 1
                return ast.copy_location(ast.Compare(left=v.left, ops=[_NEG[type(v.ops[0])]()], comparators=v.comparators), n)
            if isinstance(v, ast.UnaryOp) and isinstance(v.op, ast.Not) and _is_boolean_expr(v.operand):
                self.count += 1
                return v.operand
        return n

    def visit_AugAssign(self, n):
        self.generic_visit(n)
        if isinstance(n.op, ast.Add) and _is_list_literal(n.value) and isinstance(n.target, (ast.Name, ast.Attribute, ast.Subscript)):
            tgt = copy.deepcopy(n.target)
            for x in ast.walk(tgt):
                if hasattr(x, "ctx"):
                    x.ctx = ast.Load()
            if len(n.value.elts) == 1:
                call = ast.Call(func=ast.Attribute(value=tgt, attr="append", ctx=ast.Load()), args=[n.value.elts[0]], keywords=[])
            else:
                call = ast.Call(func=ast.Attribute(value=tgt, attr="extend", ctx=ast.Load()), args=[n.value], keywords=[])
            self.count += 1
            return ast.copy_location(ast.Expr(value=ast.copy_location(call, n)), n)
        if isinstance(n.op, ast.Add) and isinstance(n.target, (ast.Name, ast.Attribute)) and \
                (isinstance(n.value, ast.ListComp) or (isinstance(n.value, ast.Call) and isinstance(n.value.func, ast.Name) and n.value.func.id == "list")):
            # the right-hand side is a list, so the target is one: L += E is L.extend(E)
            tgt = copy.deepcopy(n.target)
            for x in ast.walk(tgt):
                if hasattr(x, "ctx"):
                    x.ctx = ast.Load()
            call = ast.Call(func=ast.Attribute(value=tgt, attr="extend", ctx=ast.Load()), args=[n.value], keywords=[])
            self.count += 1
            return ast.copy_location(ast.Expr(value=ast.copy_location(call, n)), n)
        return n

    def visit_If(self, n):
        self._const_right(n.test)
        self.generic_visit(n)
        # P42: an if whose test folded to a constant (or to `not <constant>`) is the branch taken
        t = n.test
        if isinstance(t, ast.UnaryOp) and isinstance(t.op, ast.Not) and isinstance(t.operand, ast.Constant) and isinstance(t.operand.value, bool):
            t = ast.Constant(value=not t.operand.value)
        if isinstance(t, ast.Constant) and isinstance(t.value, bool):
            self.count += 1
            taken = n.body if t.value else n.orelse
            return taken if taken else ast.copy_location(ast.Pass(), n)
        # P20: `if not c: B else: A` -> `if c: A else: B` (both branches present, the else branch not an elif chain)
        if n.orelse and n.body and isinstance(n.test, ast.UnaryOp) and isinstance(n.test.op, ast.Not) and not (len(n.orelse) == 1 and isinstance(n.orelse[0], ast.If)) \
                and not (len(n.body) == 1 and isinstance(n.body[0], ast.If) and n.body[0].orelse):
            n.test = n.test.operand
            n.body, n.orelse = n.orelse, n.body
            self.count += 1
        # ... and `if a != b: B else: A` -> `if a == b: A else: B` (likewise `not in`, `is not`)
        if n.orelse and n.body and isinstance(n.test, ast.Compare) and len(n.test.ops) == 1 and isinstance(n.test.ops[0], (ast.NotEq, ast.NotIn, ast.IsNot)) \
                and not (len(n.orelse) == 1 and isinstance(n.orelse[0], ast.If)) and not (len(n.body) == 1 and isinstance(n.body[0], ast.If) and n.body[0].orelse):
            n.test = ast.copy_location(ast.Compare(left=n.test.left, ops=[_NEG[type(n.test.ops[0])]()], comparators=n.test.comparators), n.test)
            n.body, n.orelse = n.orelse, n.body
            self.count += 1
        # P28: if c: a = A1; b = B1  else: a = A2; b = B2   ->   a = A1 if c else A2; b = B1 if c else B2
        # (both branches are straight lists of assignments to the same names in the same order; c does not read them)
        if len(n.body) >= 2 and len(n.body) == len(n.orelse) and all(isinstance(x, ast.Assign) and len(x.targets) == 1 and isinstance(x.targets[0], ast.Name) for x in n.body + n.orelse):
            ta, tb = [x.targets[0].id for x in n.body], [x.targets[0].id for x in n.orelse]
            reads = {x.id for x in ast.walk(n.test) if isinstance(x, ast.Name)}
            if ta == tb and len(set(ta)) == len(ta) and not (set(ta) & reads) and _is_pure(n.test):
                self.count += 1
                out = []
                for a_, b_ in zip(n.body, n.orelse):
                    out.append(ast.copy_location(ast.Assign(targets=[a_.targets[0]], value=ast.copy_location(ast.IfExp(test=copy.deepcopy(n.test), body=a_.value, orelse=b_.value), n)), a_))
                return out
        if len(n.body) == 1 and len(n.orelse) == 1 and isinstance(n.body[0], ast.Assign) and isinstance(n.orelse[0], ast.Assign):
            a, b = n.body[0], n.orelse[0]
            if len(a.targets) == 1 and len(b.targets) == 1 and _same_target(a.targets[0], b.targets[0]) and isinstance(a.targets[0], (ast.Name, ast.Attribute)):
                self.count += 1
                new = ast.Assign(targets=[a.targets[0]], value=ast.copy_location(ast.IfExp(test=n.test, body=a.value, orelse=b.value), n))
                return ast.copy_location(new, n)
        # P5: the same statement list at two or more leaves of a nest of ifs (other leaves empty) -> one guarded copy
        leaves = []

        def collect(stmts, conds):
            if len(stmts) == 1 and isinstance(stmts[0], ast.If):
                i = stmts[0]
                collect(i.body, conds + [(i.test, True)])
                collect(i.orelse, conds + [(i.test, False)])
            else:
                leaves.append((conds, stmts))
        collect([n], [])
        full = [(c, st) for c, st in leaves if st and not (len(st) == 1 and isinstance(st[0], ast.Pass))]
        if len(full) >= 2 and len(leaves) > len(full) - 1 and len({"\n".join(ast.dump(x) for x in st) for c, st in full}) == 1 \
                and not any(isinstance(x, (ast.Continue, ast.Break, ast.Return, ast.Raise)) for x in full[0][1]) and len(full) < len(leaves) + 1:
            def conj(conds):
                parts = [copy.deepcopy(t) if pol else ast.UnaryOp(op=ast.Not(), operand=copy.deepcopy(t)) for t, pol in conds]
                return parts[0] if len(parts) == 1 else ast.BoolOp(op=ast.And(), values=parts)
            if len(full) == len(leaves):
                pass   # every leaf runs the statements: leave it (tests may matter); rare
            else:
                test = ast.BoolOp(op=ast.Or(), values=[conj(c) for c, st in full])
                self.count += 1
                return ast.copy_location(ast.If(test=ast.copy_location(test, n), body=full[0][1], orelse=[]), n)
        # P4: `if c: r.m(a) else: r.m(b)` (same callee, exactly one differing positional argument) -> r.m(a if c else b)
        if len(n.body) == 1 and len(n.orelse) == 1 and isinstance(n.body[0], ast.Expr) and isinstance(n.orelse[0], ast.Expr) \
                and isinstance(n.body[0].value, ast.Call) and isinstance(n.orelse[0].value, ast.Call):
            a, b = n.body[0].value, n.orelse[0].value
            if ast.dump(a.func) == ast.dump(b.func) and len(a.args) == len(b.args) and [ast.dump(k) for k in a.keywords] == [ast.dump(k) for k in b.keywords] \
                    and not any(isinstance(x, ast.Starred) for x in a.args + b.args):
                diff = [i for i, (x, y) in enumerate(zip(a.args, b.args)) if ast.dump(x) != ast.dump(y)]
                if len(diff) == 1:
                    i = diff[0]
                    self.count += 1
                    args = list(a.args)
                    args[i] = ast.copy_location(ast.IfExp(test=n.test, body=a.args[i], orelse=b.args[i]), n)
                    call = ast.copy_location(ast.Call(func=a.func, args=args, keywords=a.keywords), n)
                    return ast.copy_location(ast.Expr(value=call), n)
        return n

    def visit_Expr(self, n):
        self.generic_visit(n)
        # P30: setattr(o, 'name', v) as a statement -> o.name = v   (constant identifier, not a dunder: hooks installed on classes keep their form)
        c = n.value
        if isinstance(c, ast.Call) and isinstance(c.func, ast.Name) and c.func.id == "setattr" and len(c.args) == 3 and not c.keywords \
                and isinstance(c.args[1], ast.Constant) and isinstance(c.args[1].value, str) and c.args[1].value.isidentifier() and not c.args[1].value.startswith("__"):
            self.count += 1
            tgt = ast.Attribute(value=c.args[0], attr=c.args[1].value, ctx=ast.Store())
            return ast.copy_location(ast.Assign(targets=[ast.copy_location(tgt, n)], value=c.args[2], lineno=n.lineno), n)
        return n

    def visit_Call(self, n):
        self.generic_visit(n)
        # P15: (A if c else B)(args) -> A(args) if c else B(args)
        if isinstance(n.func, ast.IfExp):
            f = n.func
            self.count += 1
            a = ast.Call(func=f.body, args=n.args, keywords=n.keywords)
            b = ast.Call(func=f.orelse, args=copy.deepcopy(n.args), keywords=copy.deepcopy(n.keywords))
            return ast.copy_location(ast.IfExp(test=f.test, body=ast.copy_location(a, n), orelse=ast.copy_location(b, n)), n)
        # P25: getattr(o, n, d) -> getattr(o, n) if hasattr(o, n) else d
        if isinstance(n.func, ast.Name) and n.func.id == "getattr" and len(n.args) == 3 and not n.keywords and _is_pure(n.args[0]) and _is_pure(n.args[1]):
            self.count += 1
            test = ast.Call(func=ast.Name(id="hasattr", ctx=ast.Load()), args=[copy.deepcopy(n.args[0]), copy.deepcopy(n.args[1])], keywords=[])
            get = ast.Call(func=ast.Name(id="getattr", ctx=ast.Load()), args=[n.args[0], n.args[1]], keywords=[])
            return ast.copy_location(ast.IfExp(test=ast.copy_location(test, n), body=ast.copy_location(get, n), orelse=n.args[2]), n)
        # P42: callable(<constant>) -> False, callable(<builtin container type / class name>) -> True; list() -> [], dict() -> {}
        if isinstance(n.func, ast.Name) and n.func.id == "callable" and len(n.args) == 1 and not n.keywords:
            a = n.args[0]
            if isinstance(a, ast.Constant):
                self.count += 1
                return ast.copy_location(ast.Constant(value=False), n)
            if isinstance(a, ast.Name) and (a.id in ("list", "dict", "set", "tuple") or (a.id[:1].isupper() and a.id in _CLASS_NAMES)):
                self.count += 1
                return ast.copy_location(ast.Constant(value=True), n)
        if isinstance(n.func, ast.Name) and n.func.id in ("list", "dict") and not n.args and not n.keywords:
            self.count += 1
            return ast.copy_location(ast.List(elts=[], ctx=ast.Load()) if n.func.id == "list" else ast.Dict(keys=[], values=[]), n)
        # P38: partial(f, a, k=v)(b, m=w) -> f(a, b, k=v, m=w)
        if isinstance(n.func, ast.Call) and ast.unparse(n.func.func).split(".")[-1] == "partial" and n.func.args and not any(isinstance(a, ast.Starred) for a in n.func.args + n.args) \
                and all(k.arg for k in n.func.keywords + n.keywords):
            self.count += 1
            over = {k.arg for k in n.keywords}
            return ast.copy_location(ast.Call(func=n.func.args[0], args=n.func.args[1:] + n.args, keywords=[k for k in n.func.keywords if k.arg not in over] + n.keywords), n)
        # P36: getattr(o, 'name') with a constant identifier (not a dunder) -> o.name
        if isinstance(n.func, ast.Name) and n.func.id == "getattr" and len(n.args) == 2 and not n.keywords and isinstance(n.args[1], ast.Constant) and isinstance(n.args[1].value, str) \
                and n.args[1].value.isidentifier() and not n.args[1].value.startswith("__"):
            self.count += 1
            return ast.copy_location(ast.Attribute(value=n.args[0], attr=n.args[1].value, ctx=ast.Load()), n)
        # P16: f(**{'a': x, 'b': y}) -> f(a=x, b=y)
        if any(k.arg is None and isinstance(k.value, ast.Dict) and all(isinstance(kk, ast.Constant) and isinstance(kk.value, str) for kk in k.value.keys) for k in n.keywords):
            kws = []
            for k in n.keywords:
                if k.arg is None and isinstance(k.value, ast.Dict) and all(isinstance(kk, ast.Constant) and isinstance(kk.value, str) for kk in k.value.keys):
                    kws += [ast.keyword(arg=kk.value, value=vv) for kk, vv in zip(k.value.keys, k.value.values)]
                else:
                    kws.append(k)
            n.keywords = kws
            self.count += 1
        # P6: dict(a=x, b=y) -> {'a': x, 'b': y}
        if isinstance(n.func, ast.Name) and n.func.id == "dict" and not n.args and n.keywords and all(k.arg is not None for k in n.keywords):
            self.count += 1
            return ast.copy_location(ast.Dict(keys=[ast.copy_location(ast.Constant(value=k.arg), n) for k in n.keywords], values=[k.value for k in n.keywords]), n)
        # P7: set([..comprehension..]) -> {..comprehension..};  list(d.keys()) stays
        if isinstance(n.func, ast.Name) and n.func.id == "set" and len(n.args) == 1 and not n.keywords and isinstance(n.args[0], (ast.ListComp, ast.GeneratorExp)):
            self.count += 1
            return ast.copy_location(ast.SetComp(elt=n.args[0].elt, generators=n.args[0].generators), n)
        return n

    def visit_For(self, n):
        self.generic_visit(n)
        it = n.iter
        if isinstance(it, ast.Call) and isinstance(it.func, ast.Name) and it.func.id == "enumerate" and len(it.args) == 1 and not it.keywords \
                and isinstance(n.target, ast.Tuple) and len(n.target.elts) == 2 and isinstance(n.target.elts[0], ast.Name):
            idx = n.target.elts[0].id
            used = any(isinstance(x, ast.Name) and x.id == idx for st in n.body + n.orelse for x in ast.walk(st))
            if not used:
                n.iter = it.args[0]
                n.target = n.target.elts[1]
                self.count += 1
        return n


def _default_then_override(tree):
    """P9: `v = a` directly followed by `if c: v = b` (no else; neither c nor b mentions v) -> `v = b if c else a`."""
    count = 0
    for node in ast.walk(tree):
        for field in ("body", "orelse", "finalbody"):
            blk = getattr(node, field, None)
            if not (isinstance(blk, list) and blk and isinstance(blk[0], ast.stmt)):
                continue
            i = 0
            while i + 1 < len(blk):
                a, b = blk[i], blk[i + 1]
                if isinstance(a, ast.Assign) and len(a.targets) == 1 and isinstance(a.targets[0], ast.Name) and isinstance(b, ast.If) and not b.orelse and len(b.body) == 1 \
                        and isinstance(b.body[0], ast.Assign) and len(b.body[0].targets) == 1 and isinstance(b.body[0].targets[0], ast.Name) \
                        and b.body[0].targets[0].id == a.targets[0].id:
                    v = a.targets[0].id
                    mentions = any(isinstance(x, ast.Name) and x.id == v for part in (b.test, b.body[0].value) for x in ast.walk(part))
                    path = a.value
                    while isinstance(path, ast.Attribute):
                        path = path.value
                    if mentions and isinstance(path, ast.Name) and path.id != v:
                        # the default is a plain access path: uses of v in the test / override denote that path
                        class _Sub(ast.NodeTransformer):
                            def visit_Name(self, x):
                                return copy.deepcopy(a.value) if x.id == v and isinstance(x.ctx, ast.Load) else x
                        b.test = _Sub().visit(b.test)
                        b.body[0].value = _Sub().visit(b.body[0].value)
                        mentions = False
                    if not mentions:
                        new = ast.Assign(targets=[a.targets[0]], value=ast.copy_location(ast.IfExp(test=b.test, body=b.body[0].value, orelse=a.value), b))
                        blk[i:i + 2] = [ast.copy_location(new, a)]
                        count += 1
                        continue
                i += 1
    return count


def _is_opti_handle(v):
    """`m.opti if hasattr(m, 'opti') else m` -- the idiom by which methods obtain the Opti instance from an Ocp or an Opti."""
    if not isinstance(v, ast.IfExp):
        return False
    t = v.test
    if not (isinstance(t, ast.Call) and isinstance(t.func, ast.Name) and t.func.id == "hasattr" and len(t.args) == 2
            and isinstance(t.args[1], ast.Constant) and t.args[1].value == "opti"):
        return False
    m = ast.dump(t.args[0])
    return isinstance(v.body, ast.Attribute) and v.body.attr == "opti" and ast.dump(v.body.value) == m and ast.dump(v.orelse) == m


def _name_opti_handle(tree):
    """P10: the local that holds the Opti handle (defined once by the idiom above) is called `opti`."""
    count = 0
    for f in ast.walk(tree):
        if not isinstance(f, (ast.FunctionDef, ast.AsyncFunctionDef)):
            continue
        bound = {a.arg for a in f.args.args + f.args.kwonlyargs} | {x.arg for x in (f.args.vararg, f.args.kwarg) if x}
        stores = {}
        for n in ast.walk(f):
            if isinstance(n, ast.Name) and isinstance(n.ctx, ast.Store):
                stores.setdefault(n.id, 0)
                stores[n.id] += 1
        cands = [st for st in f.body if isinstance(st, ast.Assign) and len(st.targets) == 1 and isinstance(st.targets[0], ast.Name) and _is_opti_handle(st.value)]
        if len(cands) != 1:
            continue
        old = cands[0].targets[0].id
        if old == "opti" or stores.get(old) != 1 or "opti" in bound or "opti" in stores or old in bound:
            continue
        if any(isinstance(n, ast.Name) and n.id == "opti" for n in ast.walk(f)):
            continue
        for n in ast.walk(f):
            if isinstance(n, ast.Name) and n.id == old:
                n.id = "opti"
        count += 1
    return count


def _is_list_expr(v):
    return isinstance(v, (ast.List, ast.ListComp)) or (isinstance(v, ast.Call) and isinstance(v.func, ast.Name) and v.func.id == "list")


def _aug_on_known_lists(tree):
    """P1b: `L += E` on a local whose every plain assignment is a list display / comprehension / list(..) -> L.extend(E)."""
    count = 0
    for f in ast.walk(tree):
        if not isinstance(f, (ast.FunctionDef, ast.AsyncFunctionDef)):
            continue
        params = {a.arg for a in f.args.args + f.args.kwonlyargs}
        vals, other = {}, set()
        for n in ast.walk(f):
            if isinstance(n, ast.Assign):
                for t in n.targets:
                    if isinstance(t, ast.Name):
                        vals.setdefault(t.id, []).append(n.value)
                    else:
                        for x in ast.walk(t):
                            if isinstance(x, ast.Name) and isinstance(x.ctx, ast.Store):
                                other.add(x.id)
            elif isinstance(n, (ast.For, ast.comprehension)):
                for x in ast.walk(n.target):
                    if isinstance(x, ast.Name):
                        other.add(x.id)
            elif isinstance(n, (ast.With,)):
                for it in n.items:
                    if it.optional_vars is not None:
                        for x in ast.walk(it.optional_vars):
                            if isinstance(x, ast.Name):
                                other.add(x.id)
        lists = {nm for nm, vs in vals.items() if nm not in other and nm not in params and all(_is_list_expr(v) for v in vs)}
        if not lists:
            continue

        class T(ast.NodeTransformer):
            def visit_AugAssign(self, n):
                nonlocal count
                if isinstance(n.op, ast.Add) and isinstance(n.target, ast.Name) and n.target.id in lists:
                    call = ast.Call(func=ast.Attribute(value=ast.Name(id=n.target.id, ctx=ast.Load()), attr="extend", ctx=ast.Load()), args=[n.value], keywords=[])
                    count += 1
                    return ast.copy_location(ast.Expr(value=ast.copy_location(call, n)), n)
                return n
        T().visit(f)
    return count


def _literal_names(node):
    """a literal tuple/list of string constants -> list of str, else None"""
    if isinstance(node, (ast.Tuple, ast.List)) and node.elts and all(isinstance(e, ast.Constant) and isinstance(e.value, str) for e in node.elts):
        return [e.value for e in node.elts]
    if isinstance(node, (ast.Tuple, ast.List)) and node.elts and all(isinstance(e, ast.Tuple) and e.elts and all(isinstance(x, (ast.Constant, ast.Name)) for x in e.elts)
                                                                     and isinstance(e.elts[0], ast.Constant) for e in node.elts):
        return [tuple(x.value if isinstance(x, ast.Constant) else x.id for x in e.elts) for e in node.elts]
    return None


def unroll_name_loops(prog):
    """P31: `for name in NAMES: setattr(self, name, v)` with NAMES a literal tuple of strings (written in place or bound at class
    level, found through the bases) is unrolled; with P30 the block of attribute assignments it stands for comes back.  Only loops
    whose variable is used as the name argument of setattr/getattr are touched, at most 40 elements, no break/continue/else."""
    count = 0
    for m in prog.modules.values():
        for cls in [n for n in m.tree.body if isinstance(n, ast.ClassDef)]:
            table = {}
            for k in ([prog.classes[c.name] for c in prog.mro(cls.name)] if cls.name in prog.classes else []):
                for st in k.node.body:
                    if isinstance(st, ast.Assign) and len(st.targets) == 1 and isinstance(st.targets[0], ast.Name):
                        v = _literal_names(st.value)
                        if v is not None:
                            table.setdefault(st.targets[0].id, (st.value, v))
            for fn in [n for n in cls.body if isinstance(n, ast.FunctionDef)]:
                selfname = fn.args.args[0].arg if fn.args.args else None

                def names_of(it):
                    v = _literal_names(it)
                    if v is not None:
                        return it
                    if isinstance(it, ast.Attribute) and it.attr in table:
                        base = ast.unparse(it.value)
                        if base in (selfname, "type(%s)" % selfname, "%s.__class__" % selfname) or base in prog.classes:
                            return table[it.attr][0]
                    return None

                class U(ast.NodeTransformer):
                    def visit_FunctionDef(self, n):
                        if n is fn:
                            self.generic_visit(n)
                        return n

                    def visit_For(self, n):
                        nonlocal count
                        self.generic_visit(n)
                        lit = names_of(n.iter)
                        if lit is None or n.orelse or len(lit.elts) > 40:
                            return n
                        tnames = [n.target.id] if isinstance(n.target, ast.Name) else ([e.id for e in n.target.elts] if isinstance(n.target, ast.Tuple) and all(isinstance(e, ast.Name) for e in n.target.elts) else None)
                        if tnames is None:
                            return n
                        if isinstance(n.target, ast.Tuple) and not all(isinstance(e, ast.Tuple) and len(e.elts) == len(tnames) for e in lit.elts):
                            return n
                        # `if T: continue` at the top of the body guards the rest of it
                        def deguard(body):
                            for q, st in enumerate(body):
                                if isinstance(st, ast.If) and not st.orelse and len(st.body) == 1 and isinstance(st.body[0], ast.Continue):
                                    rest = deguard(body[q + 1:])
                                    return body[:q] + ([ast.copy_location(ast.If(test=_negated(st.test), body=rest, orelse=[]), st)] if rest else [])
                            return body
                        n.body = deguard(n.body) or [ast.Pass()]
                        body_nodes = [x for st in n.body for x in ast.walk(st)]
                        if any(isinstance(x, (ast.Break, ast.Continue, ast.FunctionDef, ast.Lambda, ast.Yield, ast.YieldFrom)) for x in body_nodes):
                            return n
                        if any(isinstance(x, ast.Name) and x.id in tnames and isinstance(x.ctx, ast.Store) for x in body_nodes):
                            return n
                        uses = [x for x in body_nodes if isinstance(x, ast.Call) and isinstance(x.func, ast.Name) and x.func.id in ("setattr", "getattr", "hasattr", "delattr")
                                and len(x.args) >= 2 and isinstance(x.args[1], ast.Name) and x.args[1].id in tnames]
                        if not uses:
                            return n
                        out = []
                        for e in lit.elts:
                            vals = {tnames[0]: e} if isinstance(n.target, ast.Name) else dict(zip(tnames, e.elts))

                            class S(ast.NodeTransformer):
                                def visit_Name(self, x):
                                    if x.id in vals and isinstance(x.ctx, ast.Load):
                                        return ast.copy_location(copy.deepcopy(vals[x.id]), x)
                                    return x
                            for st in n.body:
                                out.append(S().visit(copy.deepcopy(st)))
                        count += 1
                        return out
                U().visit(fn)
        if count:
            ast.fix_missing_locations(m.tree)
    return count


def explicit_base_calls(prog):
    """P32: super().m(a, ..) in a method of a class with exactly one base B -> B.m(self, a, ..) (the form the code base uses)."""
    count = 0
    for m in prog.modules.values():
        for cls in [n for n in m.tree.body if isinstance(n, ast.ClassDef)]:
            if len(cls.bases) != 1 or not isinstance(cls.bases[0], (ast.Name, ast.Attribute)):
                continue
            for fn in [n for n in cls.body if isinstance(n, ast.FunctionDef)]:
                if not fn.args.args or any(isinstance(d, ast.Name) and d.id in ("staticmethod", "classmethod") for d in fn.decorator_list):
                    continue
                me = fn.args.args[0].arg
                for c in ast.walk(fn):
                    if isinstance(c, ast.Call) and isinstance(c.func, ast.Attribute) and isinstance(c.func.value, ast.Call) and isinstance(c.func.value.func, ast.Name) \
                            and c.func.value.func.id == "super" and not c.func.value.args and not c.func.value.keywords:
                        c.func.value = ast.copy_location(copy.deepcopy(cls.bases[0]), c.func.value)
                        c.args = [ast.copy_location(ast.Name(id=me, ctx=ast.Load()), c)] + c.args
                        count += 1
        if count:
            ast.fix_missing_locations(m.tree)
    return count


BASELINE_STATICMETHODS = {"Ocp.load", "BSplineSignal.register", "Stage._parse_grid"}   # frozen: static methods of the reference tree (P39 leaves them alone)


def methodise(prog):
    """P35: class-level `name = partialmethod(f, c1, .., k=c)` with f a method of the same class -> a method `name` whose body is f's
    with the bound parameters replaced by the constants.
    P39: a method that the reference tree does not know as static and that is decorated @staticmethod gets a `self` parameter
    back (its callers reach it through self.<name>(..) either way; Class.<name>(..) calls get the receiver inserted)."""
    from .model import FunctionInfo
    count = 0
    for m in prog.modules.values():
        for cls in [n for n in m.tree.body if isinstance(n, ast.ClassDef)]:
            ci = m.classes.get(cls.name)
            defs = {st.name: st for st in cls.body if isinstance(st, ast.FunctionDef)}
            for idx, st in enumerate(list(cls.body)):
                if isinstance(st, ast.Assign) and len(st.targets) == 1 and isinstance(st.targets[0], ast.Name) and isinstance(st.value, ast.Call) \
                        and ast.unparse(st.value.func).split(".")[-1] == "partialmethod" and st.value.args and isinstance(st.value.args[0], ast.Name) and st.value.args[0].id in defs:
                    f = defs[st.value.args[0].id]
                    bound_pos = st.value.args[1:]
                    bound_kw = {k.arg: k.value for k in st.value.keywords if k.arg}
                    params = f.args.args
                    if len(bound_pos) > len(params) - 1 or not all(isinstance(v, ast.Constant) for v in list(bound_pos) + list(bound_kw.values())):
                        continue
                    bind = {params[1 + i].arg: v for i, v in enumerate(bound_pos)}
                    bind.update(bound_kw)
                    if any(isinstance(x, ast.Name) and x.id in bind and isinstance(x.ctx, ast.Store) for x in ast.walk(f)):
                        continue
                    g = copy.deepcopy(f)
                    g.name = st.targets[0].id
                    nd = len(g.args.defaults)
                    firstdef = len(g.args.args) - nd
                    keep, keepdef = [], []
                    for i, a in enumerate(g.args.args):
                        if a.arg in bind:
                            continue
                        keep.append(a)
                        if i >= firstdef:
                            keepdef.append(g.args.defaults[i - firstdef])
                    g.args.args, g.args.defaults = keep, keepdef

                    class S(ast.NodeTransformer):
                        def visit_Name(self, x):
                            if x.id in bind and isinstance(x.ctx, ast.Load):
                                return ast.copy_location(copy.deepcopy(bind[x.id]), x)
                            return x
                    g.body = [S().visit(b) for b in g.body]
                    if g.body and isinstance(g.body[0], ast.Expr) and isinstance(g.body[0].value, ast.Constant) and isinstance(g.body[0].value.value, str) and len(g.body) > 1:
                        g.body = g.body[1:]
                    ast.copy_location(g, st)
                    cls.body[cls.body.index(st)] = g
                    if ci is not None:
                        ci.methods[g.name] = FunctionInfo(g, m, cls=ci)
                    count += 1
            for st in cls.body:
                if isinstance(st, ast.FunctionDef) and any(isinstance(d, ast.Name) and d.id == "staticmethod" for d in st.decorator_list) \
                        and "%s.%s" % (cls.name, st.name) not in BASELINE_STATICMETHODS and not any(a.arg == "self" for a in st.args.args):
                    st.decorator_list = [d for d in st.decorator_list if not (isinstance(d, ast.Name) and d.id == "staticmethod")]
                    st.args.args.insert(0, ast.arg(arg="self"))
                    if ci is not None:
                        ci.methods[st.name] = FunctionInfo(st, m, cls=ci)
                    # Class.name(..) calls anywhere in the module get a receiver
                    for c in ast.walk(m.tree):
                        if isinstance(c, ast.Call) and isinstance(c.func, ast.Attribute) and c.func.attr == st.name and isinstance(c.func.value, ast.Name) and c.func.value.id == cls.name:
                            c.func.value = ast.Name(id="self", ctx=ast.Load())
                    count += 1
        if count:
            ast.fix_missing_locations(m.tree)
    return count


def closures_from_method_refs(prog, known):
    """P40: a *new* method of the host's class handed over as a callback - `self.m` or `functools.partial(self.m, k=v)` as an argument
    of a call - is turned back into the nested function it was extracted from: `def m(<free parameters>): <body of m>` in front of
    the statement, bound keyword parameters replaced by the bound expressions (plain names only)."""
    if known is None:
        return 0
    count = 0
    for m in prog.modules.values():
        for cls in [n for n in m.tree.body if isinstance(n, ast.ClassDef)]:
            defs = {st.name: st for st in cls.body if isinstance(st, ast.FunctionDef)}
            new = {nm: d for nm, d in defs.items() if "%s.%s" % (cls.name, nm) not in known and d.args.args and not d.args.vararg and not d.args.kwarg}
            if not new:
                continue
            for host in [d for nm, d in defs.items() if nm not in new and d.args.args]:
                me = host.args.args[0].arg

                def ref(e):
                    """(method def, bound kwargs) if e is self.m / partial(self.m, k=name)"""
                    if isinstance(e, ast.Attribute) and isinstance(e.value, ast.Name) and e.value.id == me and e.attr in new:
                        return new[e.attr], {}
                    if isinstance(e, ast.Call) and ast.unparse(e.func).split(".")[-1] == "partial" and e.args and not e.args[1:] and ref(e.args[0]) and all(k.arg and isinstance(k.value, (ast.Name, ast.Constant)) for k in e.keywords):
                        return ref(e.args[0])[0], {k.arg: k.value for k in e.keywords}
                    return None

                def rec(lst):
                    nonlocal count
                    i = 0
                    while i < len(lst):
                        st = lst[i]
                        if isinstance(st, (ast.FunctionDef, ast.ClassDef)):
                            i += 1
                            continue
                        for fld in ("body", "orelse", "finalbody"):
                            if hasattr(st, fld) and isinstance(getattr(st, fld), list):
                                rec(getattr(st, fld))
                        heads = [st.value] if isinstance(st, (ast.Expr, ast.Assign, ast.Return)) and st.value is not None else []
                        made = []
                        for h in heads:
                            for c in [x for x in ast.walk(h) if isinstance(x, ast.Call)]:
                                for j, a in enumerate(c.args):
                                    r = ref(a)
                                    if r is None:
                                        continue
                                    d, bound = r
                                    if any(isinstance(x, ast.Name) and x.id in bound and isinstance(x.ctx, ast.Store) for x in ast.walk(d)):
                                        continue
                                    g = copy.deepcopy(d)
                                    g.decorator_list = []
                                    selfname = g.args.args[0].arg
                                    nd = len(g.args.defaults)
                                    first = len(g.args.args) - nd
                                    keep, keepdef = [], []
                                    for q, prm in enumerate(g.args.args):
                                        if q == 0 or prm.arg in bound:
                                            continue
                                        keep.append(prm)
                                        if q >= first:
                                            keepdef.append(g.args.defaults[q - first])
                                    g.args.args, g.args.defaults = keep, keepdef
                                    sub = dict(bound)
                                    sub[selfname] = ast.Name(id=me, ctx=ast.Load())

                                    class S(ast.NodeTransformer):
                                        def visit_Name(self, x):
                                            if x.id in sub and isinstance(x.ctx, ast.Load):
                                                return ast.copy_location(copy.deepcopy(sub[x.id]), x)
                                            return x
                                    g.body = [S().visit(b) for b in g.body]
                                    if isinstance(g.body[0], ast.Expr) and isinstance(g.body[0].value, ast.Constant) and isinstance(g.body[0].value.value, str) and len(g.body) > 1:
                                        g.body = g.body[1:]
                                    c.args[j] = ast.copy_location(ast.Name(id=g.name, ctx=ast.Load()), a)
                                    made.append(ast.copy_location(g, st))
                                    count += 1
                        if made:
                            lst[i:i] = made
                            i += len(made)
                        i += 1
                rec(host.body)
        if count:
            ast.fix_missing_locations(m.tree)
    return count


def partial_to_lambda(prog, known):
    """P41: functools.partial(F, a, ..) handed over as a value, F a *new* module-level function whose body is one return ->
    the lambda it stands for: `lambda <remaining parameters>: <returned expression with the bound parameters replaced>`
    (bound arguments must be plain names or constants, so that evaluating them later changes nothing)."""
    if known is None:
        return 0
    count = 0
    for m in prog.modules.values():
        new = {}
        for st in m.tree.body:
            if isinstance(st, ast.FunctionDef) and st.name not in known and not st.args.vararg and not st.args.kwarg and not st.decorator_list:
                body = [b for b in st.body if not (isinstance(b, ast.Expr) and isinstance(b.value, ast.Constant))]
                if len(body) == 1 and isinstance(body[0], ast.Return) and body[0].value is not None:
                    new[st.name] = (st, body[0].value)
        if not new:
            continue

        class T(ast.NodeTransformer):
            def visit_Call(self, n):
                nonlocal count
                self.generic_visit(n)
                if ast.unparse(n.func).split(".")[-1] == "partial" and n.args and isinstance(n.args[0], ast.Name) and n.args[0].id in new \
                        and all(isinstance(a, (ast.Name, ast.Constant)) for a in n.args[1:]) and all(k.arg and isinstance(k.value, (ast.Name, ast.Constant)) for k in n.keywords):
                    d, ret = new[n.args[0].id]
                    params = [a.arg for a in d.args.args]
                    if len(n.args) - 1 > len(params):
                        return n
                    bind = dict(zip(params, n.args[1:]))
                    bind.update({k.arg: k.value for k in n.keywords})
                    free = [p for p in params if p not in bind]
                    used = {x.id for x in ast.walk(ret) if isinstance(x, ast.Name)}
                    if any(isinstance(v, ast.Name) and v.id in free for v in bind.values()):
                        return n

                    class S(ast.NodeTransformer):
                        def visit_Name(self, x):
                            if x.id in bind and isinstance(x.ctx, ast.Load):
                                return ast.copy_location(copy.deepcopy(bind[x.id]), x)
                            return x
                    body = S().visit(copy.deepcopy(ret))
                    count += 1
                    lam = ast.Lambda(args=ast.arguments(posonlyargs=[], args=[ast.arg(arg=p) for p in free], vararg=None, kwonlyargs=[], kw_defaults=[], kwarg=None, defaults=[]), body=body)
                    return ast.copy_location(lam, n)
                return n
        T().visit(m.tree)
        if count:
            ast.fix_missing_locations(m.tree)
    return count


def inline_generator_delegation(prog, known):
    """P43: a method whose whole body is `return self.h(a, ..)` / `yield from self.h(a, ..)` / `for e in self.h(a, ..): yield e`
    with h a *new* generator method found in the class or its bases gets h's body back (parameters replaced by the arguments,
    which must be plain names)."""
    if known is None:
        return 0
    count = 0
    for m in prog.modules.values():
        for cls in [n for n in m.tree.body if isinstance(n, ast.ClassDef)]:
            if cls.name not in prog.classes:
                continue
            pool = {}
            for k in prog.mro(cls.name):
                for st in k.node.body:
                    if isinstance(st, ast.FunctionDef) and "%s.%s" % (k.name, st.name) not in known and any(isinstance(x, (ast.Yield, ast.YieldFrom)) for x in ast.walk(st)):
                        pool.setdefault(st.name, st)
            if not pool:
                continue
            for host in [st for st in cls.body if isinstance(st, ast.FunctionDef) and st.args.args]:
                body = [b for b in host.body if not (isinstance(b, ast.Expr) and isinstance(b.value, ast.Constant))]
                if len(body) != 1:
                    continue
                b = body[0]
                call = None
                if isinstance(b, ast.Return) and isinstance(b.value, ast.Call):
                    call = b.value
                elif isinstance(b, ast.Expr) and isinstance(b.value, ast.YieldFrom) and isinstance(b.value.value, ast.Call):
                    call = b.value.value
                elif isinstance(b, ast.For) and isinstance(b.iter, ast.Call) and len(b.body) == 1 and isinstance(b.body[0], ast.Expr) and isinstance(b.body[0].value, ast.Yield) \
                        and isinstance(b.target, ast.Name) and isinstance(b.body[0].value.value, ast.Name) and b.body[0].value.value.id == b.target.id and not b.orelse:
                    call = b.iter
                if call is None or not isinstance(call.func, ast.Attribute) or call.func.attr not in pool or call.func.attr == host.name:
                    continue
                me = host.args.args[0].arg
                recv = ast.unparse(call.func.value)
                h = pool[call.func.attr]
                args = list(call.args)
                if recv != me:
                    if recv in prog.classes and args and isinstance(args[0], ast.Name) and args[0].id == me:
                        args = args[1:]
                    else:
                        continue
                params = [a.arg for a in h.args.args[1:]]
                if call.keywords or len(args) != len(params) or not all(isinstance(a, (ast.Name, ast.Constant)) for a in args) or h.args.vararg or h.args.kwarg:
                    continue
                sub = dict(zip(params, args))
                sub[h.args.args[0].arg] = ast.Name(id=me, ctx=ast.Load())
                if any(isinstance(x, ast.Name) and x.id in sub and isinstance(x.ctx, ast.Store) for x in ast.walk(h)):
                    continue

                class S(ast.NodeTransformer):
                    def visit_Name(self, x):
                        if x.id in sub and isinstance(x.ctx, ast.Load):
                            return ast.copy_location(copy.deepcopy(sub[x.id]), x)
                        return x
                nb = [S().visit(copy.deepcopy(x)) for x in h.body]
                if isinstance(nb[0], ast.Expr) and isinstance(nb[0].value, ast.Constant) and isinstance(nb[0].value.value, str) and len(nb) > 1:
                    nb = nb[1:]
                host.body = nb
                count += 1
        if count:
            ast.fix_missing_locations(m.tree)
    return count


def dissolve_namedtuples(prog):
    """P45: a namedtuple type defined in the module (the reference tree has none) is dissolved: `X(a, b, c)` -> `(a, b, c)` and
    `r.field` -> `r[i]` for a local r (bound by assignment / loop / comprehension in that function, not a parameter) on which only
    fields of X are ever read."""
    count = 0
    for m in prog.modules.values():
        types = {}
        for st in ast.walk(m.tree):
            if isinstance(st, ast.Assign) and len(st.targets) == 1 and isinstance(st.targets[0], ast.Name) and isinstance(st.value, ast.Call) \
                    and ast.unparse(st.value.func).split(".")[-1] == "namedtuple" and len(st.value.args) == 2 and not st.value.keywords:
                f = st.value.args[1]
                if isinstance(f, ast.Constant) and isinstance(f.value, str):
                    fields = f.value.replace(",", " ").split()
                elif isinstance(f, (ast.List, ast.Tuple)) and all(isinstance(e, ast.Constant) and isinstance(e.value, str) for e in f.elts):
                    fields = [e.value for e in f.elts]
                else:
                    continue
                types[st.targets[0].id] = fields
        if not types:
            continue

        class Ctor(ast.NodeTransformer):
            def visit_Call(self, n):
                nonlocal count
                self.generic_visit(n)
                if isinstance(n.func, ast.Name) and n.func.id in types and not any(isinstance(a, ast.Starred) for a in n.args) and all(k.arg for k in n.keywords):
                    fields = types[n.func.id]
                    vals = dict(zip(fields, n.args))
                    vals.update({k.arg: k.value for k in n.keywords})
                    if set(vals) == set(fields):
                        count += 1
                        return ast.copy_location(ast.Tuple(elts=[vals[f] for f in fields], ctx=ast.Load()), n)
                return n
        Ctor().visit(m.tree)
        for fn in [n for n in ast.walk(m.tree) if isinstance(n, ast.FunctionDef)]:
            params = {a.arg for a in fn.args.args + fn.args.kwonlyargs} | ({fn.args.vararg.arg} if fn.args.vararg else set()) | ({fn.args.kwarg.arg} if fn.args.kwarg else set())
            own = [x for x in ast.walk(fn)]
            reads = {}
            for x in own:
                if isinstance(x, ast.Attribute) and isinstance(x.value, ast.Name):
                    reads.setdefault(x.value.id, []).append(x)
            stores = {}
            for x in own:
                if isinstance(x, ast.Name) and isinstance(x.ctx, ast.Store):
                    stores.setdefault(x.id, []).append(x)
            for r, accs in reads.items():
                if r in params or r not in stores or r in ("self", "stage", "opti", "master"):
                    continue
                hit = [(t, f) for t, f in types.items() if all(a.attr in f and isinstance(a.ctx, ast.Load) for a in accs)]
                if not hit:
                    continue
                fields = hit[0][1]
                all_uses = [x for x in own if isinstance(x, ast.Name) and x.id == r and isinstance(x.ctx, ast.Load)]
                only_fields = len(all_uses) == len(accs)
                # a loop variable read only through its fields is unpacked in the loop header, with the field names as the
                # element names where those are free (or merely aliases `f = r.f`, which then disappear)
                loops = [l for l in own if isinstance(l, ast.For) and any(t is stores[r][0] for t in ast.walk(l.target))]
                if only_fields and len(stores[r]) == 1 and len(loops) == 1:
                    names = {}
                    for f in fields:
                        others = [x for x in stores.get(f, [])]
                        alias_only = all(any(isinstance(st, ast.Assign) and len(st.targets) == 1 and st.targets[0] is x and isinstance(st.value, ast.Attribute)
                                             and isinstance(st.value.value, ast.Name) and st.value.value.id == r and st.value.attr == f for st in own) for x in others)
                        used = any(a.attr == f for a in accs)
                        names[f] = (f if (f not in params and alias_only) else "%s_%s" % (r, f)) if used else "_"
                    for a in accs:
                        nm = names[a.attr]
                        a.__class__ = ast.Name
                        a.id = nm
                        a._fields = ("id", "ctx")
                        del a.attr, a.value
                    tgt = ast.Tuple(elts=[ast.Name(id=names[f], ctx=ast.Store()) for f in fields], ctx=ast.Store())
                    loop = loops[0]
                    if loop.target is stores[r][0]:
                        loop.target = tgt
                    else:
                        for t in ast.walk(loop.target):
                            if isinstance(t, ast.Tuple):
                                t.elts = [tgt if e is stores[r][0] else e for e in t.elts]
                    # drop the aliases that became `f = f`
                    for blk in ast.walk(fn):
                        for fld in ("body", "orelse", "finalbody"):
                            lst = getattr(blk, fld, None)
                            if isinstance(lst, list):
                                lst[:] = [st for st in lst if not (isinstance(st, ast.Assign) and len(st.targets) == 1 and isinstance(st.targets[0], ast.Name)
                                                                   and isinstance(st.value, ast.Name) and st.value.id == st.targets[0].id)] or ([ast.Pass()] if lst else lst)
                    count += 1
                    continue
                for a in accs:
                    a.__class__ = ast.Subscript
                    a.slice = ast.Constant(value=fields.index(a.attr))
                    a._fields = ("value", "slice", "ctx")
                    del a.attr
                    count += 1
        if count:
            ast.fix_missing_locations(m.tree)
    return count


def inline_new_generators(prog, known):
    """P47: a *new* generator function (method of the class or module-level function, not in the frozen list) dissolves at its uses:
      for T in G(a, ..): B          ->  G's body with its single `yield E` replaced by `T = E; B`   (yield is the last statement of G's loop)
      x = list(G(a, ..))            ->  x = []; G's body with every `yield E` -> x.append(E), a bare `return` inside G's only loop -> break
      g = G(a, ..); .. next(g) ..   ->  g = list(G(..)) as above, g_pos = 0, and each statement using next(g) once reads g[g_pos] and
                                        is followed by g_pos += 1   (g used in no other way)
    Arguments must be plain names / attribute paths / constants / subscripts of those (evaluated once in the original, possibly
    several times after substitution)."""
    if known is None:
        return 0
    count = 0

    def simple(a):
        return all(isinstance(x, (ast.Name, ast.Attribute, ast.Constant, ast.Subscript, ast.expr_context, ast.Slice)) for x in ast.walk(a)) or _is_pure(a)

    for m in prog.modules.values():
        pool = {}
        for st in m.tree.body:
            if isinstance(st, ast.FunctionDef) and st.name not in known and any(isinstance(x, ast.Yield) for x in ast.walk(st)) and not any(isinstance(x, ast.YieldFrom) for x in ast.walk(st)):
                pool[(None, st.name)] = st
            if isinstance(st, ast.ClassDef):
                for d in st.body:
                    if isinstance(d, ast.FunctionDef) and "%s.%s" % (st.name, d.name) not in known and any(isinstance(x, ast.Yield) for x in ast.walk(d)) \
                            and not any(isinstance(x, ast.YieldFrom) for x in ast.walk(d)):
                        pool[(st.name, d.name)] = d
        if not pool:
            continue

        def resolve(call, cls):
            f = call.func
            if isinstance(f, ast.Name) and (None, f.id) in pool:
                return pool[(None, f.id)], 0
            if isinstance(f, ast.Attribute) and isinstance(f.value, ast.Name) and cls is not None:
                for k in [c.name for c in prog.mro(cls)] if cls in prog.classes else [cls]:
                    if (k, f.attr) in pool and f.value.id in ("self", k):
                        g = pool[(k, f.attr)]
                        static = any(isinstance(d, ast.Name) and d.id == "staticmethod" for d in g.decorator_list)
                        return g, (0 if static else 1)
            return None

        def instantiate(g, skip, call, me):
            params = [a.arg for a in g.args.args][skip:]
            if call.keywords or len(call.args) != len(params) or g.args.vararg or g.args.kwarg or not all(simple(a) for a in call.args):
                return None
            sub = dict(zip(params, call.args))
            if skip:
                sub[g.args.args[0].arg] = ast.Name(id=me, ctx=ast.Load())
            if any(isinstance(x, ast.Name) and x.id in sub and isinstance(x.ctx, ast.Store) for x in ast.walk(g)):
                return None

            class S(ast.NodeTransformer):
                def visit_Name(self, x):
                    if x.id in sub and isinstance(x.ctx, ast.Load):
                        return ast.copy_location(copy.deepcopy(sub[x.id]), x)
                    return x
            body = [S().visit(copy.deepcopy(b)) for b in g.body]
            if body and isinstance(body[0], ast.Expr) and isinstance(body[0].value, ast.Constant) and isinstance(body[0].value.value, str):
                body = body[1:]
            return body

        def replace_yields(body, make):
            """statement lists with `yield E` expression statements replaced by make(E); None if a yield is used as a value"""
            ok = [True]

            def rec(lst):
                out = []
                for st in lst:
                    if isinstance(st, ast.Expr) and isinstance(st.value, ast.Yield):
                        out.extend(make(st.value.value))
                        continue
                    if any(isinstance(x, ast.Yield) for x in ast.walk(st)) and not any(hasattr(st, f) for f in ("body",)):
                        ok[0] = False
                    for fld in ("body", "orelse", "finalbody"):
                        if hasattr(st, fld) and isinstance(getattr(st, fld), list) and not isinstance(st, (ast.FunctionDef, ast.ClassDef)):
                            setattr(st, fld, rec(getattr(st, fld)))
                    out.append(st)
                return out
            res = rec(body)
            return res if ok[0] else None

        def bare_returns_to_break(body):
            """a bare return directly inside the only top-level loop, nothing after the loop -> break; None if returns occur elsewhere"""
            rets = [x for st in body for x in ast.walk(st) if isinstance(x, ast.Return)]
            if not rets:
                return body
            loops = [st for st in body if isinstance(st, (ast.For, ast.While))]
            if len(loops) != 1 or body[-1] is not loops[0] or any(r.value is not None for r in rets):
                return None
            inner = [x for st in loops[0].body for x in ast.walk(st) if isinstance(x, (ast.For, ast.While))]
            if inner:
                return None

            class R(ast.NodeTransformer):
                def visit_Return(self, x):
                    return ast.copy_location(ast.Break(), x)
            loops[0].body = [R().visit(b) for b in loops[0].body]
            return body

        for cls_name, host in [(None, st) for st in m.tree.body if isinstance(st, ast.FunctionDef)] + \
                [(c.name, d) for c in m.tree.body if isinstance(c, ast.ClassDef) for d in c.body if isinstance(d, ast.FunctionDef)]:
            if host in pool.values() or not host.args.args and cls_name is not None:
                continue
            me = host.args.args[0].arg if (cls_name is not None and host.args.args) else None

            def rec(lst):
                nonlocal count
                i = 0
                while i < len(lst):
                    st = lst[i]
                    if isinstance(st, (ast.FunctionDef, ast.ClassDef)):
                        i += 1
                        continue
                    for fld in ("body", "orelse", "finalbody"):
                        if hasattr(st, fld) and isinstance(getattr(st, fld), list):
                            rec(getattr(st, fld))
                    # for T in G(..): B
                    if isinstance(st, ast.For) and isinstance(st.iter, ast.Call) and not st.orelse:
                        r = resolve(st.iter, cls_name)
                        if r is not None:
                            g, skip = r
                            ys = [x for x in ast.walk(g) if isinstance(x, ast.Yield)]
                            gl = [b for b in g.body if isinstance(b, ast.For)]
                            if len(ys) == 1 and len(gl) == 1 and gl[0].body and isinstance(gl[0].body[-1], ast.Expr) and gl[0].body[-1].value is ys[0] \
                                    and not any(isinstance(x, ast.Return) for x in ast.walk(g)):
                                body = instantiate(g, skip, st.iter, me)
                                if body is not None:
                                    tgt, B = st.target, st.body
                                    def bind(e, tgt=tgt, B=B, st=st):
                                        if isinstance(tgt, ast.Tuple) and isinstance(e, ast.Tuple) and len(tgt.elts) == len(e.elts) and all(isinstance(t, ast.Name) for t in tgt.elts):
                                            pairs = [(t, v) for t, v in zip(tgt.elts, e.elts) if not (isinstance(v, ast.Name) and v.id == t.id)]
                                            tn = {t.id for t, _ in pairs}
                                            if not any(isinstance(x, ast.Name) and x.id in tn for _, v in pairs for x in ast.walk(v)):
                                                return [ast.Assign(targets=[ast.Name(id=t.id, ctx=ast.Store())], value=v, lineno=st.lineno) for t, v in pairs] + B
                                        return [ast.Assign(targets=[copy.deepcopy(tgt)], value=e, lineno=st.lineno)] + B
                                    nb = replace_yields(body, bind)
                                    if nb is not None:
                                        lst[i:i + 1] = nb
                                        count += 1
                                        continue
                    # x = list(G(..))
                    if isinstance(st, ast.Assign) and len(st.targets) == 1 and isinstance(st.targets[0], ast.Name) and isinstance(st.value, ast.Call) and isinstance(st.value.func, ast.Name) \
                            and st.value.func.id == "list" and len(st.value.args) == 1 and isinstance(st.value.args[0], ast.Call):
                        r = resolve(st.value.args[0], cls_name)
                        if r is not None:
                            g, skip = r
                            body = instantiate(g, skip, st.value.args[0], me)
                            x = st.targets[0].id
                            if body is not None:
                                body = bare_returns_to_break(body)
                            if body is not None:
                                nb = replace_yields(body, lambda e: [ast.Expr(value=ast.Call(func=ast.Attribute(value=ast.Name(id=x, ctx=ast.Load()), attr="append", ctx=ast.Load()), args=[e], keywords=[]))])
                                if nb is not None:
                                    lst[i:i + 1] = [ast.Assign(targets=[ast.Name(id=x, ctx=ast.Store())], value=ast.List(elts=[], ctx=ast.Load()), lineno=st.lineno)] + nb
                                    count += 1
                                    continue
                    i += 1
            rec(host.body)
            # g = G(..) consumed only through next(g)
            for st in [x for x in ast.walk(host) if isinstance(x, ast.Assign)]:
                if len(st.targets) == 1 and isinstance(st.targets[0], ast.Name) and isinstance(st.value, ast.Call) and resolve(st.value, cls_name) is not None:
                    gname = st.targets[0].id
                    loads = [x for x in ast.walk(host) if isinstance(x, ast.Name) and x.id == gname and isinstance(x.ctx, ast.Load)]
                    nexts = [x for x in ast.walk(host) if isinstance(x, ast.Call) and isinstance(x.func, ast.Name) and x.func.id == "next" and len(x.args) == 1 and isinstance(x.args[0], ast.Name) and x.args[0].id == gname]
                    stores = [x for x in ast.walk(host) if isinstance(x, ast.Name) and x.id == gname and isinstance(x.ctx, ast.Store)]
                    if not nexts or len(loads) != len(nexts) or len(stores) != 1:
                        continue
                    pos = gname + "_pos"
                    # every statement holding a next(g) holds exactly one, as a plain (non-loop-header) statement
                    holders = []

                    def find(lst):
                        for s_ in lst:
                            own = [x for x in nexts if any(x is y for y in ast.walk(s_))]
                            nested = False
                            for fld in ("body", "orelse", "finalbody"):
                                if hasattr(s_, fld) and isinstance(getattr(s_, fld), list) and not isinstance(s_, (ast.FunctionDef, ast.ClassDef)):
                                    nested = True
                                    find(getattr(s_, fld))
                            if own and not nested:
                                holders.append((lst, s_, own))
                    find(host.body)
                    if sum(len(o) for _, _, o in holders) != len(nexts) or any(len(o) != 1 for _, _, o in holders):
                        continue
                    st.value = ast.Call(func=ast.Name(id="list", ctx=ast.Load()), args=[st.value], keywords=[])
                    for lst, s_, own in holders:
                        c = own[0]
                        c.__class__ = ast.Subscript
                        c.value = ast.Name(id=gname, ctx=ast.Load())
                        c.slice = ast.Name(id=pos, ctx=ast.Load())
                        c.ctx = ast.Load()
                        c._fields = ("value", "slice", "ctx")
                        del c.func, c.args, c.keywords
                        lst.insert(lst.index(s_) + 1, ast.AugAssign(target=ast.Name(id=pos, ctx=ast.Store()), op=ast.Add(), value=ast.Constant(value=1), lineno=s_.lineno))
                    for lst in [b for x in ast.walk(host) for b in [getattr(x, "body", None), getattr(x, "orelse", None)] if isinstance(b, list)]:
                        if st in lst:
                            lst.insert(lst.index(st) + 1, ast.Assign(targets=[ast.Name(id=pos, ctx=ast.Store())], value=ast.Constant(value=0), lineno=st.lineno))
                            break
                    count += 1
                    rec(host.body)
        if count:
            ast.fix_missing_locations(m.tree)
    return count


def push_down_new_mixins(prog, known):
    """P48: a *new* class without bases of its own (no name of it in the frozen list) that known classes list as a base - a mixin the
    common methods were pulled up into - is dissolved: its methods are copied into every class that lists it (unless the class
    defines the method itself) and it disappears from their bases.  `super()` inside the copies then refers to the remaining base
    (P32 makes that explicit)."""
    from .model import FunctionInfo
    if known is None:
        return 0
    count = 0
    for m in prog.modules.values():
        mixins = {}
        for st in m.tree.body:
            if isinstance(st, ast.ClassDef) and not st.bases and not any(k.startswith(st.name + ".") for k in known) and st.name not in known \
                    and all(isinstance(x, (ast.FunctionDef, ast.Expr, ast.Pass)) for x in st.body) and not any(isinstance(x, ast.FunctionDef) and x.name == "__init__" for x in st.body):
                mixins[st.name] = st
        if not mixins:
            continue
        for cls in [n for n in m.tree.body if isinstance(n, ast.ClassDef)]:
            listed = [b for b in cls.bases if isinstance(b, ast.Name) and b.id in mixins]
            if not listed or len(cls.bases) - len(listed) < 1:
                continue
            own = {x.name for x in cls.body if isinstance(x, ast.FunctionDef)}
            ci = m.classes.get(cls.name)
            for b in listed:
                for d in mixins[b.id].body:
                    if isinstance(d, ast.FunctionDef) and d.name not in own:
                        g = copy.deepcopy(d)
                        cls.body.append(g)
                        own.add(d.name)
                        if ci is not None:
                            ci.methods[g.name] = FunctionInfo(g, m, cls=ci)
            cls.bases = [b for b in cls.bases if b not in listed]
            if ci is not None:
                ci.bases = [ast.unparse(b) for b in cls.bases]
            count += 1
        if count:
            ast.fix_missing_locations(m.tree)
    return count


def append_loops_to_comprehensions(tree):
    """P49: `x = []` directly followed by `for v in L: [if c: [if d:]] x.append(e)` (nothing else in the loop, no else branches, x not
    read by L, c, d or e) -> `x = [e for v in L if c if d]`."""
    count = 0
    for n in ast.walk(tree):
        for fld in ("body", "orelse", "finalbody"):
            lst = getattr(n, fld, None)
            if not (isinstance(lst, list) and lst and isinstance(lst[0], ast.stmt)):
                continue
            i = 0
            while i + 1 < len(lst):
                a, l = lst[i], lst[i + 1]
                if isinstance(a, ast.Assign) and len(a.targets) == 1 and isinstance(a.targets[0], ast.Name) and isinstance(a.value, ast.List) and not a.value.elts \
                        and isinstance(l, ast.For) and not l.orelse and len(l.body) == 1:
                    x = a.targets[0].id
                    conds, st = [], l.body[0]
                    while isinstance(st, ast.If) and not st.orelse and len(st.body) == 1:
                        conds.append(st.test)
                        st = st.body[0]
                    if isinstance(st, ast.Expr) and isinstance(st.value, ast.Call) and isinstance(st.value.func, ast.Attribute) and st.value.func.attr == "append" \
                            and isinstance(st.value.func.value, ast.Name) and st.value.func.value.id == x and len(st.value.args) == 1 and not st.value.keywords:
                        e = st.value.args[0]
                        used = any(isinstance(y, ast.Name) and y.id == x for part in [l.iter, e] + conds for y in ast.walk(part))
                        if not used and not any(isinstance(y, (ast.Yield, ast.YieldFrom, ast.Await, ast.NamedExpr)) for part in [e] + conds for y in ast.walk(part)):
                            comp = ast.ListComp(elt=e, generators=[ast.comprehension(target=l.target, iter=l.iter, ifs=conds, is_async=0)])
                            lst[i:i + 2] = [ast.copy_location(ast.Assign(targets=[ast.Name(id=x, ctx=ast.Store())], value=ast.copy_location(comp, l), lineno=a.lineno), a)]
                            count += 1
                            continue
                i += 1
    return count


def unroll_class_body_tables(prog):
    """P50: members generated in the class body from a literal table -
          for name, a, b in TABLE:  locals()[name] = property(lambda self, a=a, b=b: EXPR)      (or  = lambda self, ..: EXPR)
       become the definitions they generate: `@property def <name>(self): return EXPR` with the record's constants written in."""
    from .model import FunctionInfo
    count = 0
    for m in prog.modules.values():
        for cls in [n for n in m.tree.body if isinstance(n, ast.ClassDef)]:
            consts = {t.id: st.value for st in cls.body if isinstance(st, ast.Assign) and len(st.targets) == 1 for t in st.targets if isinstance(t, ast.Name)}
            ci = m.classes.get(cls.name)
            for loop in [st for st in cls.body if isinstance(st, ast.For)]:
                table = loop.iter if isinstance(loop.iter, (ast.Tuple, ast.List)) else consts.get(loop.iter.id) if isinstance(loop.iter, ast.Name) else None
                if not isinstance(table, (ast.Tuple, ast.List)) or not table.elts or loop.orelse or len(loop.body) != 1:
                    continue
                tnames = [loop.target.id] if isinstance(loop.target, ast.Name) else [e.id for e in loop.target.elts] if isinstance(loop.target, ast.Tuple) and all(isinstance(e, ast.Name) for e in loop.target.elts) else None
                st = loop.body[0]
                if tnames is None or not (isinstance(st, ast.Assign) and len(st.targets) == 1 and isinstance(st.targets[0], ast.Subscript) and isinstance(st.targets[0].value, ast.Call)
                                          and isinstance(st.targets[0].value.func, ast.Name) and st.targets[0].value.func.id in ("locals", "vars") and isinstance(st.targets[0].slice, ast.Name)
                                          and st.targets[0].slice.id in tnames):
                    continue
                v = st.value
                is_prop = isinstance(v, ast.Call) and isinstance(v.func, ast.Name) and v.func.id == "property" and len(v.args) == 1 and isinstance(v.args[0], ast.Lambda)
                lam = v.args[0] if is_prop else v if isinstance(v, ast.Lambda) else None
                if lam is None or not lam.args.args:
                    continue
                made = []
                ok = True
                for rec in table.elts:
                    vals = [rec] if isinstance(loop.target, ast.Name) else list(rec.elts) if isinstance(rec, ast.Tuple) and len(rec.elts) == len(tnames) else None
                    if vals is None or not all(isinstance(x, ast.Constant) or (isinstance(x, ast.Tuple) and all(isinstance(y, ast.Constant) for y in x.elts)) for x in vals):
                        ok = False
                        break
                    bind = dict(zip(tnames, vals))
                    name = bind[st.targets[0].slice.id]
                    if not (isinstance(name, ast.Constant) and isinstance(name.value, str) and name.value.isidentifier()):
                        ok = False
                        break
                    # lambda defaults `a=_a` carry the record's fields into the body
                    params = lam.args.args
                    nd = len(lam.args.defaults)
                    sub = {}
                    for q, prm in enumerate(params):
                        if q >= len(params) - nd:
                            d = lam.args.defaults[q - (len(params) - nd)]
                            if isinstance(d, ast.Name) and d.id in bind:
                                sub[prm.arg] = bind[d.id]
                            else:
                                ok = False
                    free = [prm for prm in params if prm.arg not in sub]

                    class S(ast.NodeTransformer):
                        def visit_Name(self, x):
                            if x.id in sub and isinstance(x.ctx, ast.Load):
                                return ast.copy_location(copy.deepcopy(sub[x.id]), x)
                            if x.id in bind and isinstance(x.ctx, ast.Load):
                                return ast.copy_location(copy.deepcopy(bind[x.id]), x)
                            return x
                    body = S().visit(copy.deepcopy(lam.body))
                    fd = ast.FunctionDef(name=name.value, args=ast.arguments(posonlyargs=[], args=[ast.arg(arg=prm.arg) for prm in free], vararg=None, kwonlyargs=[], kw_defaults=[], kwarg=None, defaults=[]),
                                         body=[ast.Return(value=body)], decorator_list=[ast.Name(id="property", ctx=ast.Load())] if is_prop else [], returns=None, type_comment=None, type_params=[])
                    made.append(ast.copy_location(fd, loop))
                if not ok or not made:
                    continue
                idx = cls.body.index(loop)
                cls.body[idx:idx + 1] = made
                # `del _name, _table` after the loop refers to names that no longer exist
                cls.body[:] = [x for x in cls.body if not (isinstance(x, ast.Delete) and all(isinstance(t, ast.Name) and t.id in tnames for t in x.targets))]
                if ci is not None:
                    for fd in made:
                        ci.methods[fd.name] = FunctionInfo(fd, m, cls=ci)
                count += len(made)
        if count:
            ast.fix_missing_locations(m.tree)
    return count


def merge_adjacent_reassignments(tree):
    """P52: `x = A` directly followed by `x = F(x)` (x a plain local, A pure, x read in F only) -> `x = F(A)` - a parameter an inlined
    helper re-binds (`table = getattr(self, table)`) becomes one definition."""
    count = 0
    for n in ast.walk(tree):
        for fld in ("body", "orelse", "finalbody"):
            lst = getattr(n, fld, None)
            if not (isinstance(lst, list) and lst and isinstance(lst[0], ast.stmt)):
                continue
            i = 0
            while i + 1 < len(lst):
                a, b = lst[i], lst[i + 1]
                if isinstance(a, ast.Assign) and isinstance(b, ast.Assign) and len(a.targets) == 1 and len(b.targets) == 1 and isinstance(a.targets[0], ast.Name) \
                        and isinstance(b.targets[0], ast.Name) and a.targets[0].id == b.targets[0].id and _is_pure(a.value) \
                        and isinstance(a.value, (ast.Constant, ast.Name, ast.Attribute)):
                    x = a.targets[0].id
                    uses = [y for y in ast.walk(b.value) if isinstance(y, ast.Name) and y.id == x]
                    if uses:
                        class S(ast.NodeTransformer):
                            def visit_Name(self, y):
                                if y.id == x and isinstance(y.ctx, ast.Load):
                                    return ast.copy_location(copy.deepcopy(a.value), y)
                                return y
                        b.value = S().visit(b.value)
                        del lst[i]
                        count += 1
                        continue
                i += 1
    return count


def canonicalise(prog):
    _CLASS_NAMES.clear()
    _CLASS_NAMES.update(prog.classes)
    total = keyword_defaults(prog)
    total += explicit_base_calls(prog)
    total += unroll_name_loops(prog)
    izl = index_zip_loops(prog)
    if izl:
        prog.normalisation.setdefault("zip_loops_indexed", []).extend(izl)
        total += len(izl)
        for m_ in prog.modules.values():
            ast.fix_missing_locations(m_.tree)
    for m in prog.modules.values():
        c = _Canon()
        if os.environ.get("RKVERIF_P21", "0") == "1":   # experimental: re-nesting every guard clause changes too many baseline shapes; the rules read paths instead (ceval.run_path)
            c.count += renest_guard_clauses(m.tree)
        if os.environ.get("RKVERIF_P33", "1") == "1":
            c.count += flatten_else_after_exit(m.tree)
        if os.environ.get("RKVERIF_P49", "1") == "1":
            c.count += append_loops_to_comprehensions(m.tree)
        c.count += merge_adjacent_reassignments(m.tree)
        c.visit(m.tree)
        c.count += _default_then_override(m.tree)
        c.count += _name_opti_handle(m.tree)
        c.count += _aug_on_known_lists(m.tree)
        total += c.count
        if c.count:
            ast.fix_missing_locations(m.tree)
    return total
