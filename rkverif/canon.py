"""E0c -- canonicalisation of the syntax trees before any rule runs.

Behaviour-preserving rewrites that bring equivalent idioms to one form, so that the rules (which
compare normal forms of *expressions*) do not depend on the statement-level idiom a maintainer
happened to choose:

  P0  un-rename: a private function that vanished from the frozen name list while an unknown function with
      (nearly) the same body fingerprint appeared in the same class/module is treated as renamed; the
      old name is restored in the definition and in every reference.
  P1  `L += [x]` -> `L.append(x)`;  `L += [x, y]` / `L += list-expression` on a name known to be a list ->
      `L.extend(...)`.
  P2  `if c: v = a` / `else: v = b` (single assignments to the same target) -> `v = a if c else b`,
      applied bottom-up so that elif chains become nested conditional expressions.
  P3  `for i, x in enumerate(L)` where i is unused -> `for x in L`.

Nothing here changes what the analysed program would compute.
"""
import ast
import copy
import json
import os

HERE = os.path.dirname(os.path.abspath(__file__))


# ---------------------------------------------------------------------------------------- P0
def fingerprint(fnode):
    """Set of structural tokens of a function body (attribute names, called names, string constants, statement kinds)."""
    toks = set()
    for n in ast.walk(fnode):
        if n is fnode:
            continue
        if isinstance(n, ast.Attribute):
            toks.add("." + n.attr)
        elif isinstance(n, ast.Call) and isinstance(n.func, ast.Name):
            toks.add("call:" + n.func.id)
        elif isinstance(n, ast.Constant) and isinstance(n.value, str) and len(n.value) < 60:
            toks.add("str:" + n.value)
        elif isinstance(n, (ast.For, ast.While, ast.If, ast.Try, ast.Return, ast.Raise, ast.Assert, ast.Yield)):
            toks.add("stmt:" + type(n).__name__)
    return toks


def load_fingerprints():
    p = os.path.join(HERE, "known_fingerprints.json")
    try:
        return {k: set(v) for k, v in json.load(open(p)).items()}
    except Exception:
        return None


def write_fingerprints(prog):
    out = {}
    for m in prog.modules.values():
        for name, f in m.functions.items():
            out[m.relpath + ":" + name] = sorted(fingerprint(f.node))
        for c in m.classes.values():
            for name, f in c.methods.items():
                out[c.name + "." + name] = sorted(fingerprint(f.node))
    json.dump(out, open(os.path.join(HERE, "known_fingerprints.json"), "w"), indent=0)
    return len(out)


class _RenameRefs(ast.NodeTransformer):
    def __init__(self, new, old):
        self.new, self.old = new, old

    def visit_Attribute(self, n):
        self.generic_visit(n)
        if n.attr == self.new:
            n.attr = self.old
        return n

    def visit_Name(self, n):
        if n.id == self.new:
            n.id = self.old
        return n

    def visit_Constant(self, n):
        return n


def unrename(prog, known):
    """Restore the known name of private functions that were renamed (unique best fingerprint match >= 0.8)."""
    fps = load_fingerprints()
    if fps is None or known is None:
        return []
    done = []
    for m in prog.modules.values():
        scopes = [(None, m.functions, m.relpath + ":")]
        for c in m.classes.values():
            scopes.append((c, c.methods, c.name + "."))
        for cls, table, prefix in scopes:
            missing = [k[len(prefix):] for k in fps if k.startswith(prefix) and k[len(prefix):] not in table
                       and (cls is not None or ":" in k)]
            if cls is not None:
                missing = [n for n in missing if (prefix + n) in fps]
            unknown = [n for n in table if (prefix + n) not in fps and n not in known]
            if not missing or not unknown:
                continue
            for old in missing:
                if not old.startswith("_") or old.startswith("__"):
                    continue   # only private helpers may be renamed without changing the public API
                best, score = None, 0.0
                for new in unknown:
                    a, b = fps[prefix + old], fingerprint(table[new].node)
                    if not a or not b:
                        continue
                    j = len(a & b) / float(len(a | b))
                    if j > score:
                        best, score = new, j
                if best is not None and score >= 0.8:
                    # rename definition and all references in the package
                    f = table.pop(best)
                    f.node.name = old
                    f.name = old
                    f.qualname = f.qualname[: -len(best)] + old
                    table[old] = f
                    unknown.remove(best)
                    for mm in prog.modules.values():
                        _RenameRefs(best, old).visit(mm.tree)
                    done.append("%s%s -> %s (similarity %.2f)" % (prefix, best, old, score))
    return done


# ---------------------------------------------------------------------------------------- P1 / P2 / P3
def _is_list_literal(v):
    return isinstance(v, ast.List) and not any(isinstance(e, ast.Starred) for e in v.elts)


def _same_target(a, b):
    return ast.dump(a) == ast.dump(b)


class _Canon(ast.NodeTransformer):
    def __init__(self):
        self.count = 0

    def visit_AugAssign(self, n):
        self.generic_visit(n)
        if isinstance(n.op, ast.Add) and _is_list_literal(n.value) and isinstance(n.target, (ast.Name, ast.Attribute, ast.Subscript)):
            tgt = copy.deepcopy(n.target)
            for x in ast.walk(tgt):
                if hasattr(x, "ctx"):
                    x.ctx = ast.Load()
            if len(n.value.elts) == 1:
                call = ast.Call(func=ast.Attribute(value=tgt, attr="append", ctx=ast.Load()), args=[n.value.elts[0]], keywords=[])
            else:
                call = ast.Call(func=ast.Attribute(value=tgt, attr="extend", ctx=ast.Load()), args=[n.value], keywords=[])
            self.count += 1
            return ast.copy_location(ast.Expr(value=ast.copy_location(call, n)), n)
        return n

    def visit_If(self, n):
        self.generic_visit(n)
        if len(n.body) == 1 and len(n.orelse) == 1 and isinstance(n.body[0], ast.Assign) and isinstance(n.orelse[0], ast.Assign):
            a, b = n.body[0], n.orelse[0]
            if len(a.targets) == 1 and len(b.targets) == 1 and _same_target(a.targets[0], b.targets[0]) and isinstance(a.targets[0], (ast.Name, ast.Attribute)):
                self.count += 1
                new = ast.Assign(targets=[a.targets[0]], value=ast.copy_location(ast.IfExp(test=n.test, body=a.value, orelse=b.value), n))
                return ast.copy_location(new, n)
        return n

    def visit_For(self, n):
        self.generic_visit(n)
        it = n.iter
        if isinstance(it, ast.Call) and isinstance(it.func, ast.Name) and it.func.id == "enumerate" and len(it.args) == 1 and not it.keywords \
                and isinstance(n.target, ast.Tuple) and len(n.target.elts) == 2 and isinstance(n.target.elts[0], ast.Name):
            idx = n.target.elts[0].id
            used = any(isinstance(x, ast.Name) and x.id == idx for st in n.body + n.orelse for x in ast.walk(st))
            if not used:
                n.iter = it.args[0]
                n.target = n.target.elts[1]
                self.count += 1
        return n


def canonicalise(prog):
    total = 0
    for m in prog.modules.values():
        c = _Canon()
        c.visit(m.tree)
        total += c.count
        if c.count:
            ast.fix_missing_locations(m.tree)
    return total
