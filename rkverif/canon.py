"""E0c -- canonicalisation of the syntax trees before any rule runs.

Behaviour-preserving rewrites that bring equivalent idioms to one form, so that the rules (which
compare normal forms of *expressions*) do not depend on the statement-level idiom a maintainer
happened to choose:

  P0  un-rename: a private function that vanished from the frozen name list while an unknown function with
      (nearly) the same body fingerprint appeared in the same class/module is treated as renamed; the
      old name is restored in the definition and in every reference.
  P1  `L += [x]` -> `L.append(x)`;  `L += [x, y]` / `L += list-expression` on a name known to be a list ->
      `L.extend(...)`.
  P2  `if c: v = a` / `else: v = b` (single assignments to the same target) -> `v = a if c else b`,
      applied bottom-up so that elif chains become nested conditional expressions.
  P3  `for i, x in enumerate(L)` where i is unused -> `for x in L`.
  P5  the same statements at several leaves of a nest of ifs whose other leaves are empty -> one copy guarded by the
      disjunction of the path conditions.
  P6  `dict(a=x, b=y)` -> `{'a': x, 'b': y}`.
  P7  `set([e for ..])` / `set(e for ..)` -> `{e for ..}`.
  P9  `v = a` directly followed by `if c: v = b` -> `v = b if c else a`.
  P10 the local defined once as `m.opti if hasattr(m, 'opti') else m` is named `opti`.
  P4  `if c: r.m(a)` / `else: r.m(b)` (same callee, one differing positional argument) -> `r.m(a if c else b)`.

Nothing here changes what the analysed program would compute.
"""
import ast
import copy
import json
import os

HERE = os.path.dirname(os.path.abspath(__file__))


# ---------------------------------------------------------------------------------------- P0
def fingerprint(fnode):
    """Set of structural tokens of a function body (attribute names, called names, string constants, statement kinds)."""
    toks = set()
    for n in ast.walk(fnode):
        if n is fnode:
            continue
        if isinstance(n, ast.Attribute):
            toks.add("." + n.attr)
        elif isinstance(n, ast.Call) and isinstance(n.func, ast.Name):
            toks.add("call:" + n.func.id)
        elif isinstance(n, ast.Constant) and isinstance(n.value, str) and len(n.value) < 60:
            toks.add("str:" + n.value)
        elif isinstance(n, (ast.For, ast.While, ast.If, ast.Try, ast.Return, ast.Raise, ast.Assert, ast.Yield)):
            toks.add("stmt:" + type(n).__name__)
    return toks


def load_fingerprints():
    p = os.path.join(HERE, "known_fingerprints.json")
    try:
        return {k: set(v) for k, v in json.load(open(p)).items()}
    except Exception:
        return None


def write_fingerprints(prog):
    out = {}
    for m in prog.modules.values():
        for name, f in m.functions.items():
            out[m.relpath + ":" + name] = sorted(fingerprint(f.node))
        for c in m.classes.values():
            for name, f in c.methods.items():
                out[c.name + "." + name] = sorted(fingerprint(f.node))
    json.dump(out, open(os.path.join(HERE, "known_fingerprints.json"), "w"), indent=0)
    return len(out)


class _RenameRefs(ast.NodeTransformer):
    def __init__(self, new, old):
        self.new, self.old = new, old

    def visit_Attribute(self, n):
        self.generic_visit(n)
        if n.attr == self.new:
            n.attr = self.old
        return n

    def visit_Name(self, n):
        if n.id == self.new:
            n.id = self.old
        return n

    def visit_Constant(self, n):
        return n


def unrename(prog, known):
    """Restore the known name of private functions that were renamed (unique best fingerprint match >= 0.8)."""
    fps = load_fingerprints()
    if fps is None or known is None:
        return []
    done = []
    for m in prog.modules.values():
        scopes = [(None, m.functions, m.relpath + ":")]
        for c in m.classes.values():
            scopes.append((c, c.methods, c.name + "."))
        for cls, table, prefix in scopes:
            missing = [k[len(prefix):] for k in fps if k.startswith(prefix) and k[len(prefix):] not in table
                       and (cls is not None or ":" in k)]
            if cls is not None:
                missing = [n for n in missing if (prefix + n) in fps]
            unknown = [n for n in table if (prefix + n) not in fps and n not in known]
            if not missing or not unknown:
                continue
            for old in missing:
                if not old.startswith("_") or old.startswith("__"):
                    continue   # only private helpers may be renamed without changing the public API
                best, score = None, 0.0
                for new in unknown:
                    a, b = fps[prefix + old], fingerprint(table[new].node)
                    if not a or not b:
                        continue
                    j = len(a & b) / float(len(a | b))
                    if j > score:
                        best, score = new, j
                if best is not None and score >= 0.8:
                    # rename definition and all references in the package
                    f = table.pop(best)
                    f.node.name = old
                    f.name = old
                    f.qualname = f.qualname[: -len(best)] + old
                    table[old] = f
                    unknown.remove(best)
                    for mm in prog.modules.values():
                        _RenameRefs(best, old).visit(mm.tree)
                    done.append("%s%s -> %s (similarity %.2f)" % (prefix, best, old, score))
    return done


# ---------------------------------------------------------------------------------------- P1 / P2 / P3
def _is_list_literal(v):
    return isinstance(v, ast.List) and not any(isinstance(e, ast.Starred) for e in v.elts)


def _same_target(a, b):
    return ast.dump(a) == ast.dump(b)


class _Canon(ast.NodeTransformer):
    def __init__(self):
        self.count = 0

    def visit_AugAssign(self, n):
        self.generic_visit(n)
        if isinstance(n.op, ast.Add) and _is_list_literal(n.value) and isinstance(n.target, (ast.Name, ast.Attribute, ast.Subscript)):
            tgt = copy.deepcopy(n.target)
            for x in ast.walk(tgt):
                if hasattr(x, "ctx"):
                    x.ctx = ast.Load()
            if len(n.value.elts) == 1:
                call = ast.Call(func=ast.Attribute(value=tgt, attr="append", ctx=ast.Load()), args=[n.value.elts[0]], keywords=[])
            else:
                call = ast.Call(func=ast.Attribute(value=tgt, attr="extend", ctx=ast.Load()), args=[n.value], keywords=[])
            self.count += 1
            return ast.copy_location(ast.Expr(value=ast.copy_location(call, n)), n)
        if isinstance(n.op, ast.Add) and isinstance(n.target, (ast.Name, ast.Attribute)) and \
                (isinstance(n.value, ast.ListComp) or (isinstance(n.value, ast.Call) and isinstance(n.value.func, ast.Name) and n.value.func.id == "list")):
            # the right-hand side is a list, so the target is one: L += E is L.extend(E)
            tgt = copy.deepcopy(n.target)
            for x in ast.walk(tgt):
                if hasattr(x, "ctx"):
                    x.ctx = ast.Load()
            call = ast.Call(func=ast.Attribute(value=tgt, attr="extend", ctx=ast.Load()), args=[n.value], keywords=[])
            self.count += 1
            return ast.copy_location(ast.Expr(value=ast.copy_location(call, n)), n)
        return n

    def visit_If(self, n):
        self.generic_visit(n)
        if len(n.body) == 1 and len(n.orelse) == 1 and isinstance(n.body[0], ast.Assign) and isinstance(n.orelse[0], ast.Assign):
            a, b = n.body[0], n.orelse[0]
            if len(a.targets) == 1 and len(b.targets) == 1 and _same_target(a.targets[0], b.targets[0]) and isinstance(a.targets[0], (ast.Name, ast.Attribute)):
                self.count += 1
                new = ast.Assign(targets=[a.targets[0]], value=ast.copy_location(ast.IfExp(test=n.test, body=a.value, orelse=b.value), n))
                return ast.copy_location(new, n)
        # P5: the same statement list at two or more leaves of a nest of ifs (other leaves empty) -> one guarded copy
        leaves = []

        def collect(stmts, conds):
            if len(stmts) == 1 and isinstance(stmts[0], ast.If):
                i = stmts[0]
                collect(i.body, conds + [(i.test, True)])
                collect(i.orelse, conds + [(i.test, False)])
            else:
                leaves.append((conds, stmts))
        collect([n], [])
        full = [(c, st) for c, st in leaves if st and not (len(st) == 1 and isinstance(st[0], ast.Pass))]
        if len(full) >= 2 and len(leaves) > len(full) - 1 and len({"\n".join(ast.dump(x) for x in st) for c, st in full}) == 1 \
                and not any(isinstance(x, (ast.Continue, ast.Break, ast.Return, ast.Raise)) for x in full[0][1]) and len(full) < len(leaves) + 1:
            def conj(conds):
                parts = [copy.deepcopy(t) if pol else ast.UnaryOp(op=ast.Not(), operand=copy.deepcopy(t)) for t, pol in conds]
                return parts[0] if len(parts) == 1 else ast.BoolOp(op=ast.And(), values=parts)
            if len(full) == len(leaves):
                pass   # every leaf runs the statements: leave it (tests may matter); rare
            else:
                test = ast.BoolOp(op=ast.Or(), values=[conj(c) for c, st in full])
                self.count += 1
                return ast.copy_location(ast.If(test=ast.copy_location(test, n), body=full[0][1], orelse=[]), n)
        # P4: `if c: r.m(a) else: r.m(b)` (same callee, exactly one differing positional argument) -> r.m(a if c else b)
        if len(n.body) == 1 and len(n.orelse) == 1 and isinstance(n.body[0], ast.Expr) and isinstance(n.orelse[0], ast.Expr) \
                and isinstance(n.body[0].value, ast.Call) and isinstance(n.orelse[0].value, ast.Call):
            a, b = n.body[0].value, n.orelse[0].value
            if ast.dump(a.func) == ast.dump(b.func) and len(a.args) == len(b.args) and [ast.dump(k) for k in a.keywords] == [ast.dump(k) for k in b.keywords] \
                    and not any(isinstance(x, ast.Starred) for x in a.args + b.args):
                diff = [i for i, (x, y) in enumerate(zip(a.args, b.args)) if ast.dump(x) != ast.dump(y)]
                if len(diff) == 1:
                    i = diff[0]
                    self.count += 1
                    args = list(a.args)
                    args[i] = ast.copy_location(ast.IfExp(test=n.test, body=a.args[i], orelse=b.args[i]), n)
                    call = ast.copy_location(ast.Call(func=a.func, args=args, keywords=a.keywords), n)
                    return ast.copy_location(ast.Expr(value=call), n)
        return n

    def visit_Call(self, n):
        self.generic_visit(n)
        # P6: dict(a=x, b=y) -> {'a': x, 'b': y}
        if isinstance(n.func, ast.Name) and n.func.id == "dict" and not n.args and n.keywords and all(k.arg is not None for k in n.keywords):
            self.count += 1
            return ast.copy_location(ast.Dict(keys=[ast.copy_location(ast.Constant(value=k.arg), n) for k in n.keywords], values=[k.value for k in n.keywords]), n)
        # P7: set([..comprehension..]) -> {..comprehension..};  list(d.keys()) stays
        if isinstance(n.func, ast.Name) and n.func.id == "set" and len(n.args) == 1 and not n.keywords and isinstance(n.args[0], (ast.ListComp, ast.GeneratorExp)):
            self.count += 1
            return ast.copy_location(ast.SetComp(elt=n.args[0].elt, generators=n.args[0].generators), n)
        return n

    def visit_For(self, n):
        self.generic_visit(n)
        it = n.iter
        if isinstance(it, ast.Call) and isinstance(it.func, ast.Name) and it.func.id == "enumerate" and len(it.args) == 1 and not it.keywords \
                and isinstance(n.target, ast.Tuple) and len(n.target.elts) == 2 and isinstance(n.target.elts[0], ast.Name):
            idx = n.target.elts[0].id
            used = any(isinstance(x, ast.Name) and x.id == idx for st in n.body + n.orelse for x in ast.walk(st))
            if not used:
                n.iter = it.args[0]
                n.target = n.target.elts[1]
                self.count += 1
        return n


def _default_then_override(tree):
    """P9: `v = a` directly followed by `if c: v = b` (no else; neither c nor b mentions v) -> `v = b if c else a`."""
    count = 0
    for node in ast.walk(tree):
        for field in ("body", "orelse", "finalbody"):
            blk = getattr(node, field, None)
            if not (isinstance(blk, list) and blk and isinstance(blk[0], ast.stmt)):
                continue
            i = 0
            while i + 1 < len(blk):
                a, b = blk[i], blk[i + 1]
                if isinstance(a, ast.Assign) and len(a.targets) == 1 and isinstance(a.targets[0], ast.Name) and isinstance(b, ast.If) and not b.orelse and len(b.body) == 1 \
                        and isinstance(b.body[0], ast.Assign) and len(b.body[0].targets) == 1 and isinstance(b.body[0].targets[0], ast.Name) \
                        and b.body[0].targets[0].id == a.targets[0].id:
                    v = a.targets[0].id
                    mentions = any(isinstance(x, ast.Name) and x.id == v for part in (b.test, b.body[0].value) for x in ast.walk(part))
                    path = a.value
                    while isinstance(path, ast.Attribute):
                        path = path.value
                    if mentions and isinstance(path, ast.Name) and path.id != v:
                        # the default is a plain access path: uses of v in the test / override denote that path
                        class _Sub(ast.NodeTransformer):
                            def visit_Name(self, x):
                                return copy.deepcopy(a.value) if x.id == v and isinstance(x.ctx, ast.Load) else x
                        b.test = _Sub().visit(b.test)
                        b.body[0].value = _Sub().visit(b.body[0].value)
                        mentions = False
                    if not mentions:
                        new = ast.Assign(targets=[a.targets[0]], value=ast.copy_location(ast.IfExp(test=b.test, body=b.body[0].value, orelse=a.value), b))
                        blk[i:i + 2] = [ast.copy_location(new, a)]
                        count += 1
                        continue
                i += 1
    return count


def _is_opti_handle(v):
    """`m.opti if hasattr(m, 'opti') else m` -- the idiom by which methods obtain the Opti instance from an Ocp or an Opti."""
    if not isinstance(v, ast.IfExp):
        return False
    t = v.test
    if not (isinstance(t, ast.Call) and isinstance(t.func, ast.Name) and t.func.id == "hasattr" and len(t.args) == 2
            and isinstance(t.args[1], ast.Constant) and t.args[1].value == "opti"):
        return False
    m = ast.dump(t.args[0])
    return isinstance(v.body, ast.Attribute) and v.body.attr == "opti" and ast.dump(v.body.value) == m and ast.dump(v.orelse) == m


def _name_opti_handle(tree):
    """P10: the local that holds the Opti handle (defined once by the idiom above) is called `opti`."""
    count = 0
    for f in ast.walk(tree):
        if not isinstance(f, (ast.FunctionDef, ast.AsyncFunctionDef)):
            continue
        bound = {a.arg for a in f.args.args + f.args.kwonlyargs} | {x.arg for x in (f.args.vararg, f.args.kwarg) if x}
        stores = {}
        for n in ast.walk(f):
            if isinstance(n, ast.Name) and isinstance(n.ctx, ast.Store):
                stores.setdefault(n.id, 0)
                stores[n.id] += 1
        cands = [st for st in f.body if isinstance(st, ast.Assign) and len(st.targets) == 1 and isinstance(st.targets[0], ast.Name) and _is_opti_handle(st.value)]
        if len(cands) != 1:
            continue
        old = cands[0].targets[0].id
        if old == "opti" or stores.get(old) != 1 or "opti" in bound or "opti" in stores or old in bound:
            continue
        if any(isinstance(n, ast.Name) and n.id == "opti" for n in ast.walk(f)):
            continue
        for n in ast.walk(f):
            if isinstance(n, ast.Name) and n.id == old:
                n.id = "opti"
        count += 1
    return count


def _is_list_expr(v):
    return isinstance(v, (ast.List, ast.ListComp)) or (isinstance(v, ast.Call) and isinstance(v.func, ast.Name) and v.func.id == "list")


def _aug_on_known_lists(tree):
    """P1b: `L += E` on a local whose every plain assignment is a list display / comprehension / list(..) -> L.extend(E)."""
    count = 0
    for f in ast.walk(tree):
        if not isinstance(f, (ast.FunctionDef, ast.AsyncFunctionDef)):
            continue
        params = {a.arg for a in f.args.args + f.args.kwonlyargs}
        vals, other = {}, set()
        for n in ast.walk(f):
            if isinstance(n, ast.Assign):
                for t in n.targets:
                    if isinstance(t, ast.Name):
                        vals.setdefault(t.id, []).append(n.value)
                    else:
                        for x in ast.walk(t):
                            if isinstance(x, ast.Name) and isinstance(x.ctx, ast.Store):
                                other.add(x.id)
            elif isinstance(n, (ast.For, ast.comprehension)):
                for x in ast.walk(n.target):
                    if isinstance(x, ast.Name):
                        other.add(x.id)
            elif isinstance(n, (ast.With,)):
                for it in n.items:
                    if it.optional_vars is not None:
                        for x in ast.walk(it.optional_vars):
                            if isinstance(x, ast.Name):
                                other.add(x.id)
        lists = {nm for nm, vs in vals.items() if nm not in other and nm not in params and all(_is_list_expr(v) for v in vs)}
        if not lists:
            continue

        class T(ast.NodeTransformer):
            def visit_AugAssign(self, n):
                nonlocal count
                if isinstance(n.op, ast.Add) and isinstance(n.target, ast.Name) and n.target.id in lists:
                    call = ast.Call(func=ast.Attribute(value=ast.Name(id=n.target.id, ctx=ast.Load()), attr="extend", ctx=ast.Load()), args=[n.value], keywords=[])
                    count += 1
                    return ast.copy_location(ast.Expr(value=ast.copy_location(call, n)), n)
                return n
        T().visit(f)
    return count


def canonicalise(prog):
    total = 0
    for m in prog.modules.values():
        c = _Canon()
        c.visit(m.tree)
        c.count += _default_then_override(m.tree)
        c.count += _name_opti_handle(m.tree)
        c.count += _aug_on_known_lists(m.tree)
        total += c.count
        if c.count:
            ast.fix_missing_locations(m.tree)
    return total
