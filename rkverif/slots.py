"""E2 -- keyword-slot tables of the substitution calls (stage._expr_apply) of the four evaluators.

The expected tables below are the *position kinds* of the method's lists (confirmed by reading the
producers, and checked against them by rkverif/layout.py):

  NODE     N+1 elements, element n <-> control node n          X, Q, Z, V_states[i], P_control_plus[i], V_control_plus[i], control_grid
  INTERVAL N elements, element k <-> control interval k        U, P_control[i], V_control[i], Z0, integrator_grid
  IPOINT   N*M+1 elements, element k*M+i <-> integrator point  xk, xqk, zk
  ISTEP    N*M elements, element k*M+i <-> integrator step     poly_coeff, poly_coeff_q, poly_coeff_z
  IGRID    [k][i]                                              integrator_grid[k][i]
  ROOT     [k][i][:, j] / [k][i][j]                            xr, zr, tr

A slot that is absent is accepted (an unsubstituted symbol makes Opti fail loudly); a slot that is
present must carry exactly the element of the right list addressed by the evaluator's own indices.
"""
import ast

from .norm import Norm, expected
from .poly import Poly
from .paths import walk_no_nested
from .effects import is_call_to
from .model import AnalysisError


def expr_apply_calls(fi):
    return [c for c in walk_no_nested(fi.node) if isinstance(c, ast.Call) and isinstance(c.func, ast.Attribute)
            and c.func.attr in ("_expr_apply", "_constr_apply")]


def slot_table(norm, call):
    return {kw.arg: norm.poly(kw.value) for kw in call.keywords if kw.arg is not None}


def at_helpers():
    return {
        "p_control": "self.get_p_control_at(stage,{k})",
        "p_control_plus": "self.get_p_control_plus_at(stage,{k})",
        "v_control": "self.get_v_control_at(stage,{k})",
        "v_control_plus": "self.get_v_control_plus_at(stage,{k})",
        "v_states": "self.get_v_states_at(stage,{k})",
    }


COMMON = {
    "t0": "self.t0",
    "T": "self.T",
    "v": "self.V",
    "p": "veccat(*self.P)",
}


def expected_control(k, stage="stage"):
    e = dict(COMMON)
    e.update({
        "x": "self.X[{k}]",
        "z": "self.Z[{k}] if self.Z else nan",
        "u": "self.U[{k}]",
        "signals": "(self.signals, self.get_signals_at(stage,{k}))",
        "t": "self.control_grid[{k}]",
        "DT_control": "self.get_DT_control_at({k})",
        "DT": "self.get_DT_at({k}, self.M-1 if {k}==-1 else 0)",
    })
    e.update(at_helpers())
    return {s: expected(t.format(k=k).replace("stage", stage)) for s, t in e.items()}


def expected_integrator(k, i, stage="stage"):
    e = dict(COMMON)
    e.update({
        "x": "self.xk[{k}*self.M+{i}]",
        "xq": "self.xqk[{k}*self.M+{i}]",
        "z": "self.zk[{k}*self.M+{i}] if self.zk else nan",
        "u": "self.U[{k}]",
        "t": "self.integrator_grid[{k}][{i}]",
        "DT_control": "self.get_DT_control_at({k})",
        "DT": "self.get_DT_at({k}, {i})",
    })
    e.update(at_helpers())
    return {s: expected(t.format(k=k, i=i).replace("stage", stage)) for s, t in e.items()}


def expected_root(k, i, j, stage="stage"):
    e = dict(COMMON)
    e.update({
        "x": "self.xr[{k}][{i}][:,{j}]",
        "z": "self.zr[{k}][{i}][:,{j}] if self.zk else nan",
        "u": "self.U[{k}]",
        "t": "self.tr[{k}][{i}][{j}]",
        "DT_control": "self.get_DT_control_at({k})",
        "DT": "self.get_DT_at({k}, {i})",
    })
    h = at_helpers()
    h.pop("v_states")
    e.update(h)
    return {s: expected(t.format(k=k, i=i, j=j).replace("stage", stage)) for s, t in e.items()}


def branch_defs(scope, name, norm_factory):
    """All plain assignments of a local name with the guards under which they happen:
    [(tuple of (guard key, polarity)), Poly]"""
    out = []
    for d in scope.defs.get(name, []):
        if d.kind != "assign":
            return None
        n = norm_factory()
        gs = tuple((n.key(t), p) for t, p in scope.guards(d.stmt))
        out.append((gs, n.poly(d.value)))
    return out


def check_slot_table(ctx, fi, call, want, label, accept_missing=True, extra_ok=()):
    """Compare the slot table of one _expr_apply call with the expected table."""
    n = ctx.norm(fi)
    got = slot_table(n, call)
    for slot, val in sorted(got.items()):
        if slot in extra_ok:
            continue
        if slot not in want:
            ctx.fail("%s slot %s" % (label, slot), detail="unexpected slot", expected="one of %s" % sorted(want), found=str(val), fi=fi, node=call)
            continue
        ctx.check(val == want[slot], "%s slot %s" % (label, slot), detail="slot fed from the wrong element",
                  expected=want[slot], found=val, fi=fi, node=call, sample={"slot": slot, "value": str(val)})
    return got


def per_interval_helper_ok(ctx, fi, list_attr, elem="{v}[{k}]"):
    """get_*_at(stage, k): veccat(*[p[k] for p in self.<list_attr>]) -- every per-interval list indexed by the same k."""
    k = fi.params[2] if len(fi.params) > 2 else None
    rets = [r for r in walk_no_nested(fi.node) if isinstance(r, ast.Return) and r.value is not None]
    ok = False
    found = ""
    for r in rets:
        found = ast.unparse(r.value)
        v = r.value
        if isinstance(v, ast.Call) and ast.unparse(v.func) in ("veccat", "ca.veccat", "vvcat", "vcat") and v.args:
            a = v.args[0]
            if isinstance(a, ast.Starred):
                a = a.value
            if isinstance(a, ast.ListComp) and len(a.generators) == 1 and not a.generators[0].ifs:
                g = a.generators[0]
                it = ast.unparse(g.iter)
                var = g.target.id if isinstance(g.target, ast.Name) else None
                elt = a.elt
                src_ok = it in ("self.%s" % list_attr, "self.%s.values()" % list_attr)
                want = elem.format(v=var, k=k)
                ok = src_ok and Norm(None).key(elt) == Norm(None).key(ast.parse(want, mode="eval").body)
    return ok, found
