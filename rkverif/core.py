"""Obligations, findings, evidence and the command-line driver shared by all property checks."""
import ast
import importlib
import json
import os
import sys
import time
import traceback

from .model import Program, AnalysisError, repo_root
from .norm import Scope, Norm

VERIF = os.path.dirname(os.path.dirname(os.path.abspath(__file__)))

ASSUMPTIONS = [
    "N, M, degree >= 1",
    "Python semantics of negative indices (index -1 = last element)",
    "receiver typing table of rkverif/model.py (stage/self in Stage -> Stage|Ocp; *._method -> DirectMethod family; self.time_grid -> Grid family; opti -> OptiWrapper)",
    "CasADi calls are pure functions of their arguments; CasADi Function/substitute/Opti/collocation_* semantics are trusted",
    "assert statements are active (no python -O)",
    "the source text of /repo/rockit/**/*.py parsed by CPython's ast is the program that runs",
]


class Finding:
    def __init__(self, rule, instance, detail, file, line, expected, found, path=None):
        self.rule, self.instance, self.detail = rule, instance, detail
        self.file, self.line, self.expected, self.found, self.path = file, line, expected, found, path

    @property
    def key(self):
        return "%s|%s|%s" % (self.rule, self.instance, self.detail)

    def as_dict(self):
        return {"rule": self.rule, "instance": self.instance, "detail": self.detail, "key": self.key,
                "file": self.file, "line": self.line, "expected": self.expected, "found": self.found,
                "path": self.path}

    def text(self):
        s = "%s %s:%s %s [%s]" % (self.rule, self.file, self.line, self.instance, self.detail)
        if self.expected is not None or self.found is not None:
            s += " expected: %s; found: %s" % (self.expected, self.found)
        if self.path:
            s += " path: %s" % self.path
        return s


class RuleSpec:
    def __init__(self, rid, fn, min_instances, desc, tier):
        self.id, self.fn, self.min, self.desc, self.tier = rid, fn, min_instances, desc, tier


def rule(rid, min_instances=1, desc="", tier="quick"):
    def deco(fn):
        fn._rule = RuleSpec(rid, fn, min_instances, desc or (fn.__doc__ or "").strip().split("\n")[0], tier)
        return fn
    return deco


class Ctx:
    def __init__(self, prog, pid, tier, seed=0):
        self.prog, self.pid, self.tier, self.seed = prog, pid, tier, seed
        self.findings = []
        self.obligations = {}     # rule -> [ (instance, ok) ]
        self.samples = []
        self.errors = []          # (rule, message)
        self.functions = set()
        self.current = None
        self.notes = {}
        self._scopes = {}
        self._norms = {}

    # -- analysis helpers -------------------------------------------------------
    def scope(self, fi):
        if fi.qualname not in self._scopes:
            self._scopes[fi.qualname] = Scope(fi)
        self.functions.add(fi.qualname)
        self.prog._consulted.add(fi.module.relpath)
        return self._scopes[fi.qualname]

    def norm(self, fi, **kw):
        if kw:
            return Norm(self.scope(fi), **kw)
        if fi.qualname not in self._norms:
            self._norms[fi.qualname] = Norm(self.scope(fi))
        return self._norms[fi.qualname]

    # -- obligations ---------------------------------------------------------------
    def check(self, ok, instance, detail="", expected=None, found=None, fi=None, node=None, path=None, sample=None):
        """Register one obligation of the current rule; a failed one becomes a finding."""
        rid = self.current.id if self.current else "?"
        self.obligations.setdefault(rid, []).append((instance, bool(ok)))
        if fi is not None:
            self.functions.add(fi.qualname)
            self.prog._consulted.add(fi.module.relpath)
        if sample is not None and len(self.samples) < 400:
            self.samples.append({"rule": rid, "instance": instance, "fact": sample})
        if not ok:
            file = fi.module.relpath if fi is not None else None
            line = getattr(node, "lineno", None) if node is not None else (fi.node.lineno if fi is not None else None)
            self.findings.append(Finding(rid, instance, detail, file, line,
                                         None if expected is None else str(expected),
                                         None if found is None else str(found), path))
        return bool(ok)

    def fail(self, instance, detail="", **kw):
        return self.check(False, instance, detail, **kw)

    def ok(self, instance, **kw):
        return self.check(True, instance, **kw)

    def note(self, k, v):
        self.notes[k] = v

    # -- running ---------------------------------------------------------------------
    def run_rules(self, module):
        specs = []
        for name in dir(module):
            fn = getattr(module, name)
            if callable(fn) and hasattr(fn, "_rule"):
                specs.append(fn._rule)
        specs.sort(key=lambda s: [int(x) if x.isdigit() else x for x in s.id.replace("R", "").replace(".", " ").split()])
        self.specs = specs
        for spec in specs:
            if spec.tier == "thorough" and self.tier != "thorough":
                continue
            self.current = spec
            self.obligations.setdefault(spec.id, [])
            try:
                spec.fn(self)
            except AnalysisError as e:
                self.errors.append((spec.id, str(e)))
            except RecursionError as e:
                self.errors.append((spec.id, "recursion limit: %s" % e))
            except Exception as e:  # an extractor bug must never look like a pass
                tb = traceback.format_exc(limit=6)
                self.errors.append((spec.id, "internal error: %s\n%s" % (e, tb)))
            self.current = None
        # vacuity guard: fewer instances than confirmed by hand => the rule no longer sees its anchors
        for spec in specs:
            if spec.tier == "thorough" and self.tier != "thorough":
                continue
            n = len(self.obligations.get(spec.id, []))
            if n < spec.min and not any(r == spec.id for r, _ in self.errors) \
                    and not any(f.rule == spec.id for f in self.findings):
                self.errors.append((spec.id, "vacuity guard: %d instances matched, at least %d confirmed by hand" % (n, spec.min)))


def load_known():
    p = os.path.join(VERIF, "known_findings.json")
    if not os.path.exists(p):
        return []
    with open(p) as f:
        return json.load(f).get("findings", [])


LEVELS = {}


def write_evidence(pid, tier, seed, level, ctx, t0, new, known, extra=None):
    total = sum(len(v) for v in ctx.obligations.values())
    good = sum(1 for v in ctx.obligations.values() for _, ok in v if ok)
    rules = {}
    for spec in getattr(ctx, "specs", []):
        obs = ctx.obligations.get(spec.id, [])
        rules[spec.id] = {"desc": spec.desc, "instances": len(obs), "discharged": sum(1 for _, ok in obs if ok),
                          "min_instances": spec.min, "tier": spec.tier}
    cov = {
        "obligations": total,
        "discharged": good,
        "explanation": "static analysis of the source text under %s: %d rule instances (obligations) extracted from the "
                       "syntax trees of %d functions in %d files, %d discharged; decides the structural clauses listed in "
                       "DESIGN.md section 4.%s, not the numerical behaviour" % (
                           ctx.prog.root, total, len(ctx.functions), len(ctx.prog.consulted_files()), good, pid),
        "rules": rules,
        "files": ctx.prog.consulted_files(),
        "functions": sorted(ctx.functions),
        "samples": ctx.samples[:60] if ctx.samples else [{"note": "no sample recorded"}],
        "checker_cmd": "./check %s %s" % (pid, tier),
        "trusted_base": ["CPython ast", "rkverif engine (model/norm/poly/paths/layout)", "CasADi semantics of Function/substitute/Opti",
                         "receiver typing table", "hand-confirmed instance minima"],
        "exhaustive": True,
        "analysis_errors": [{"rule": r, "message": m} for r, m in ctx.errors],
        "known_findings": [f.as_dict() for f in known],
        "notes": ctx.notes,
    }
    if extra:
        cov.update(extra)
    ev = {
        "property_id": pid,
        "tier": tier,
        "seed": int(seed),
        "level": level,
        "coverage": cov,
        "assumptions": ASSUMPTIONS,
        "wall_s": round(time.time() - t0, 3),
        "violations": len(new),
    }
    os.makedirs(os.path.join(VERIF, "evidence"), exist_ok=True)
    path = os.path.join(VERIF, "evidence", "%s.json" % pid)
    tmp = path + ".tmp"
    with open(tmp, "w") as f:
        json.dump(ev, f, indent=1, default=str)
    os.replace(tmp, path)
    return path


_SHARED_PROGS = {}


def run_property(pid, tier="quick", seed=0, root=None, write=True, quiet=False):
    """Run all rules of one property; returns (exit_code, ctx, new_findings, known_findings)."""
    t0 = time.time()
    mod = importlib.import_module("rkverif.rules.%s" % pid.lower())
    level = getattr(mod, "LEVEL", "other")
    # developer tools that run all properties on one scratch tree in one process may share the parsed program (rules only read it)
    if os.environ.get("RKVERIF_SHARE_PROG") == "1":
        key = os.path.abspath(root) if root else "<default>"
        prog = _SHARED_PROGS.get(key)
        if prog is None:
            prog = _SHARED_PROGS[key] = Program(root)
    else:
        prog = Program(root)
    ctx = Ctx(prog, pid, tier, seed)
    ctx.run_rules(mod)
    known_tab = {(k["property"], k["key"]): k for k in load_known() if k.get("status") == "known"}
    new, known = [], []
    seen = set()
    for f in ctx.findings:
        if f.key in seen:
            continue
        seen.add(f.key)
        if (pid, f.key) in known_tab:
            known.append(f)
        else:
            new.append(f)
    extra = None
    if hasattr(mod, "extra_evidence"):
        try:
            extra = mod.extra_evidence(ctx)
        except Exception:
            extra = None
    if write:
        write_evidence(pid, tier, seed, level, ctx, t0, new, known, extra)
        vp = os.path.join(VERIF, "evidence", "%s.violations.json" % pid)
        if new:
            with open(vp, "w") as f:
                json.dump({"property": pid, "root": prog.root, "violations": [x.as_dict() for x in new]}, f, indent=1)
        elif os.path.exists(vp):
            os.remove(vp)
    if not quiet:
        for f in known:
            k = known_tab[(pid, f.key)]
            print("KNOWN-FINDING: property=%s %s (%s:%s %s)" % (pid, k.get("what", f.key), f.file, f.line, f.key))
        for f in new:
            print("FINDING " + f.text())
        for r, m in ctx.errors:
            print("ANALYSIS-ERROR property=%s rule=%s %s" % (pid, r, m))
        total = sum(len(v) for v in ctx.obligations.values())
        good = sum(1 for v in ctx.obligations.values() for _, ok in v if ok)
        print("%s %s: %d obligations, %d discharged, %d known findings, %d violations, %d analysis errors, %.2fs" % (
            pid, tier, total, good, len(known), len(new), len(ctx.errors), time.time() - t0))
    if new:
        if not quiet:
            print("VIOLATION property=%s replay=%s" % (pid, os.path.join(VERIF, "evidence", "%s.violations.json" % pid)))
        return 1, ctx, new, known
    if ctx.errors:
        return 2, ctx, new, known
    return 0, ctx, new, known


def replay(pid, path):
    with open(path) as f:
        rec = json.load(f)
    code, ctx, new, known = run_property(pid, "quick", write=False, quiet=True)
    want = {v["key"] for v in rec.get("violations", [])}
    hit = [f for f in new if f.key in want]
    for f in hit:
        print("REPLAY still violated: " + f.text())
    for k in sorted(want - {f.key for f in hit}):
        print("REPLAY no longer violated: " + k)
    if hit:
        print("VIOLATION property=%s replay=%s" % (pid, path))
        return 1
    return 0


def main(argv=None):
    sys.setrecursionlimit(20000)
    argv = list(sys.argv[1:] if argv is None else argv)
    if not argv:
        print("usage: check Cxx [quick|thorough] [--replay path]")
        return 2
    pid = argv[0].upper()
    tier = os.environ.get("VERIF_TIER", "quick")
    if len(argv) > 1 and argv[1] in ("quick", "thorough"):
        tier = argv[1]
    try:
        seed = int(os.environ.get("VERIF_SEED", "0"))
    except ValueError:
        seed = 0
    try:
        if "--replay" in argv:
            return replay(pid, argv[argv.index("--replay") + 1])
        code, ctx, new, known = run_property(pid, tier, seed)
        if os.environ.get("VERIF_SELFTEST", "1") != "0":
            # E7: never influences the exit code, never prints VIOLATION
            try:
                from . import selftest
                selftest.run_for(pid, tier, seed)
            except Exception as e:
                print("self-test skipped: %s" % e)
            if tier == "thorough":
                try:
                    from . import mutate
                    res = mutate.run_for(pid, jobs=int(os.environ.get("VERIF_JOBS", "12")))
                    path = os.path.join(VERIF, "evidence", "%s.json" % pid)
                    ev = json.load(open(path))
                    ev["coverage"]["ast_mutants"] = res
                    ev["wall_s"] = round(ev.get("wall_s", 0) + res.get("wall_s", 0), 3)
                    json.dump(ev, open(path + ".tmp", "w"), indent=1, default=str)
                    os.replace(path + ".tmp", path)
                    if res.get("generated"):
                        print("%s AST-computed mutants: %d generated, %d killed, %d survived, %d invalid, %d analysis errors, %.1fs" % (
                            pid, res["generated"], res["killed"], len(res["survived"]), res["invalid"], len(res["analysis_error"]), res["wall_s"]))
                        for w in res["survived"][:10]:
                            print("   survived: " + w)
                except Exception as e:
                    print("AST-mutant pass skipped: %s" % e)
        return code
    except AnalysisError as e:
        print("ANALYSIS-ERROR property=%s %s" % (pid, e))
        return 2
    except Exception as e:
        traceback.print_exc()
        print("ANALYSIS-ERROR property=%s internal error: %s" % (pid, e))
        return 2
