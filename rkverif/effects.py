"""E4 -- effect sets: attribute writes on a receiver, computed from syntax."""
import ast

from .norm import MUTATORS


def root_attr(node, recv="self"):
    """If node is an access path rooted at <recv>.<attr> (through subscripts / further attributes),
    return attr, else None."""
    n = node
    while True:
        if isinstance(n, ast.Attribute):
            if isinstance(n.value, ast.Name) and n.value.id == recv:
                return n.attr
            n = n.value
        elif isinstance(n, ast.Subscript):
            n = n.value
        elif isinstance(n, ast.Call) and isinstance(n.func, ast.Attribute):
            # e.g. self._stages.copy() -- not a write path
            return None
        else:
            return None


def direct_attr(node, recv="self"):
    return node.attr if isinstance(node, ast.Attribute) and isinstance(node.value, ast.Name) and node.value.id == recv else None


class Write:
    def __init__(self, attr, node, kind, plain):
        self.attr, self.node, self.kind, self.plain = attr, node, kind, plain

    def __repr__(self):
        return "<write %s %s line %s>" % (self.kind, self.attr, getattr(self.node, "lineno", "?"))


def writes_in(fnode, recv="self", include_nested=False):
    """Attribute writes on `recv` lexically inside the function node.

    kind: assign (self.a = ..), item (self.a[..] = .. / self.a.b = ..), aug (self.a += ..),
          call (self.a.append(..) and other mutators), del.
    plain: True when the whole attribute is rebound to a value not mentioning itself."""
    out = []

    def targets(t):
        if isinstance(t, (ast.Tuple, ast.List)):
            for e in t.elts:
                yield from targets(e)
        elif isinstance(t, ast.Starred):
            yield from targets(t.value)
        else:
            yield t

    def visit(n, top):
        for c in ast.iter_child_nodes(n):
            if isinstance(c, (ast.FunctionDef, ast.AsyncFunctionDef, ast.Lambda, ast.ClassDef)) and not include_nested:
                continue
            visit(c, False)
        if isinstance(n, ast.Assign):
            for t0 in n.targets:
                for t in targets(t0):
                    a = direct_attr(t, recv)
                    if a is not None:
                        selfref = any(direct_attr(x, recv) == a for x in ast.walk(n.value))
                        out.append(Write(a, n, "assign" if not selfref else "aug", not selfref))
                    else:
                        a = root_attr(t, recv)
                        if a is not None:
                            out.append(Write(a, n, "item", False))
        elif isinstance(n, ast.AugAssign):
            a = direct_attr(n.target, recv)
            if a is not None:
                out.append(Write(a, n, "aug", False))
            else:
                a = root_attr(n.target, recv)
                if a is not None:
                    out.append(Write(a, n, "item", False))
        elif isinstance(n, ast.AnnAssign) and n.value is not None:
            a = direct_attr(n.target, recv)
            if a is not None:
                out.append(Write(a, n, "assign", True))
        elif isinstance(n, ast.Delete):
            for t in n.targets:
                a = root_attr(t, recv)
                if a is not None:
                    out.append(Write(a, n, "del", False))
        elif isinstance(n, ast.Call) and isinstance(n.func, ast.Attribute) and n.func.attr in MUTATORS:
            a = root_attr(n.func.value, recv)
            if a is not None:
                out.append(Write(a, n, "call", False))

    visit(fnode, True)
    out.sort(key=lambda w: (getattr(w.node, "lineno", 0), getattr(w.node, "col_offset", 0)))
    return out


def is_call_to(node, attr, recv=None):
    """node is a Call to <recv>.<attr>(...) (recv None = any receiver) or bare attr(...)."""
    if not isinstance(node, ast.Call):
        return False
    f = node.func
    if isinstance(f, ast.Attribute) and f.attr == attr:
        return recv is None or ast.unparse(f.value) == recv
    if isinstance(f, ast.Name) and f.id == attr and recv is None:
        return True
    return False
