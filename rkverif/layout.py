"""E3 -- list-growth / layout interpreter.

An abstract interpreter over the syntax trees of the transcription methods: loop bounds N, M, degree
are concrete small integers, everything else (decision variables, CasADi expressions, the stage) is
an opaque symbolic term.  It tracks how the method object's lists (X, U, Q, Z, xk, xqk, zk,
poly_coeff*, P_control*, V_control*, integrator_grid, tr, xr, Xc, ...) are built, so that rules can
compare, for every (N, M, degree) of a sweep, the *length* of each list and the *content* stored at
each index with the position kind the evaluators assume (NODE / INTERVAL / IPOINT / ISTEP / ROOT).

It never imports or executes repository code: it evaluates `ast` nodes with its own semantics, and
stops with LayoutUnknown on any construct outside the fragment it models.
"""
import ast

from .model import AnalysisError


class LayoutUnknown(AnalysisError):
    pass


class Sym:
    """Opaque term: op + hashable args."""
    __slots__ = ("op", "args")

    def __init__(self, op, *args):
        self.op, self.args = op, tuple(args)

    def key(self):
        return (self.op,) + tuple(freeze(a) for a in self.args)

    def __eq__(self, o):
        return isinstance(o, Sym) and self.key() == o.key()

    def __hash__(self):
        return hash(self.key())

    def __repr__(self):
        return "%s(%s)" % (self.op, ", ".join(short(a) for a in self.args))


def freeze(v):
    if isinstance(v, Sym):
        return v.key()
    if isinstance(v, (list, tuple)):
        return tuple(freeze(x) for x in v)
    if isinstance(v, dict):
        return tuple(sorted((k, freeze(x)) for k, x in v.items()))
    if isinstance(v, Obj):
        return ("obj", v.name)
    return v


def short(v, depth=0):
    if isinstance(v, Sym):
        if depth > 3:
            return v.op + "(..)"
        return "%s(%s)" % (v.op, ", ".join(short(a, depth + 1) for a in v.args))
    if isinstance(v, list):
        return "[" + ", ".join(short(x, depth + 1) for x in v[:4]) + (", ..]" if len(v) > 4 else "]")
    return repr(v)


class Arr(list):
    """numpy-array-like list: arithmetic with a scalar maps over the elements."""


class Obj:
    def __init__(self, name, attrs=None):
        self.name = name
        self.attrs = attrs if attrs is not None else {}


class _Return(Exception):
    def __init__(self, value):
        self.value = value


class _Break(Exception):
    pass


class _Continue(Exception):
    pass


INLINE = {"clean", "add_parameter", "add_variables", "add_variables_V", "add_variables_V_control", "add_variables_V_control_finalize",
          "add_parameter_signals", "add_constraints", "add_parameters", "transcribe"}

# tests whose truth is a modelling choice of the sweep (see Layout.__init__)
POLICY_TESTS = {
    "stage.nz": "nz",
    "stage.nu > 0": "nu",
    "self.time_grid.localize_t0": "localize_t0",
    "self.time_grid.localize_T": "localize_T",
}


class Layout:
    def __init__(self, prog, cname, N, M, d=2, nz=True, nu=True, localize_t0=False, localize_T=False, dense=True):
        self.prog, self.cname = prog, cname
        self.cfg = {"nz": nz, "nu": nu, "localize_t0": localize_t0, "localize_T": localize_T, "dense": dense}
        self.self_obj = Obj("self", {"N": N, "M": M, "degree": d, "tau": [Sym("tau", j) for j in range(d)], "intg": "rk",
                                     "C": Sym("C"), "D": Sym("D"), "B": Sym("B"), "signals": {}})
        self.self_obj.attrs["time_grid"] = Obj("time_grid", {"localize_t0": localize_t0, "localize_T": localize_T})
        self.stage = Obj("stage")
        self.counter = 0
        self.depth = 0
        self.sites = {}

    # -- entry ---------------------------------------------------------------------
    def run(self):
        f = self.prog.method(self.cname, "clean")
        self.call_function(f, [self.self_obj], {})
        t = self.prog.method(self.cname, "transcribe")
        self.call_function(t, [self.self_obj, self.stage], {"phase": 1})
        return self.self_obj.attrs

    # -- functions -------------------------------------------------------------------
    def call_function(self, fi, args, kwargs):
        self.depth += 1
        if self.depth > 12:
            raise LayoutUnknown("inlining too deep at %s" % fi.qualname)
        env = {}
        params = fi.params
        for p, a in zip(params, args):
            env[p] = a
        a = fi.node.args
        defaults = a.defaults
        for p, dnode in zip(params[len(params) - len(defaults):], defaults):
            if p not in env:
                env[p] = self.ev(dnode, {})
        for k, v in kwargs.items():
            if k in params:
                env[k] = v
        for p in params:
            if p not in env:
                env[p] = Sym("param", p)
        try:
            self.block(fi.node.body, env, fi)
            r = None
        except _Return as e:
            r = e.value
        self.depth -= 1
        return r

    # -- statements ------------------------------------------------------------------
    def block(self, body, env, fi):
        for st in body:
            self.stmt(st, env, fi)

    def stmt(self, st, env, fi):
        if isinstance(st, ast.Expr):
            self.ev(st.value, env, fi)
        elif isinstance(st, ast.Assign):
            v = self.ev(st.value, env, fi)
            for t in st.targets:
                self.assign(t, v, env, fi)
        elif isinstance(st, ast.AugAssign):
            cur = self.ev(st.target, env, fi)
            rhs = self.ev(st.value, env, fi)
            self.assign(st.target, self.binop(st.op, cur, rhs), env, fi)
        elif isinstance(st, ast.For):
            it = self.iterable(self.ev(st.iter, env, fi), st)
            broke = False
            for item in it:
                self.assign(st.target, item, env, fi)
                try:
                    self.block(st.body, env, fi)
                except _Continue:
                    continue
                except _Break:
                    broke = True
                    break
            if not broke and st.orelse:
                self.block(st.orelse, env, fi)
        elif isinstance(st, ast.If):
            t = self.test(st.test, env, fi)
            self.block(st.body if t else st.orelse, env, fi)
        elif isinstance(st, ast.Return):
            raise _Return(self.ev(st.value, env, fi) if st.value is not None else None)
        elif isinstance(st, ast.Continue):
            raise _Continue()
        elif isinstance(st, ast.Break):
            raise _Break()
        elif isinstance(st, (ast.Pass, ast.Assert, ast.Import, ast.ImportFrom, ast.Global)):
            return
        elif isinstance(st, ast.Try):
            self.block(st.body, env, fi)
        elif isinstance(st, ast.With):
            self.block(st.body, env, fi)
        elif isinstance(st, ast.Raise):
            raise LayoutUnknown("raise reached at %s:%d" % (fi.qualname, st.lineno))
        elif isinstance(st, (ast.FunctionDef, ast.ClassDef)):
            return
        else:
            raise LayoutUnknown("statement %s at %s:%d" % (type(st).__name__, fi.qualname, st.lineno))

    def assign(self, t, v, env, fi):
        if isinstance(t, ast.Name):
            env[t.id] = v
        elif isinstance(t, ast.Attribute):
            o = self.ev(t.value, env, fi)
            if isinstance(o, Obj):
                o.attrs[t.attr] = v
            else:
                pass  # attribute store on an opaque term: irrelevant for layout
        elif isinstance(t, ast.Subscript):
            o = self.ev(t.value, env, fi)
            idx = self.ev(t.slice, env, fi) if not isinstance(t.slice, (ast.Slice, ast.Tuple)) else None
            if isinstance(o, list) and isinstance(idx, int):
                o[idx] = v
            elif isinstance(o, dict):
                o[freeze(idx)] = v
            elif isinstance(o, (Sym, Obj)):
                pass
            else:
                raise LayoutUnknown("subscript store %s at %s:%d" % (ast.unparse(t), fi.qualname, t.lineno))
        elif isinstance(t, (ast.Tuple, ast.List)):
            if isinstance(v, (list, tuple)) and len(v) == len(t.elts):
                for e, x in zip(t.elts, v):
                    self.assign(e, x, env, fi)
            else:
                for i, e in enumerate(t.elts):
                    self.assign(e, Sym("unpack", v, i), env, fi)
        else:
            raise LayoutUnknown("assignment target %s" % ast.unparse(t))

    def iterable(self, v, st):
        if isinstance(v, range):
            return list(v)
        if isinstance(v, (list, tuple)):
            return list(v)
        if isinstance(v, dict):
            return list(v.keys())
        if isinstance(v, Sym) and v.op == "stagelist":
            return [Sym("elem", v.args[0], 0)] if v.args[1] else []
        if isinstance(v, Sym) and v.op == "enumerate":
            inner = self.iterable(v.args[0], st)
            return [(i, x) for i, x in enumerate(inner)]
        if isinstance(v, Sym) and v.op == "zip":
            lists = [self.iterable(x, st) for x in v.args]
            return [tuple(x) for x in zip(*lists)]
        if isinstance(v, Sym) and v.op in ("dictview",):
            return []
        raise LayoutUnknown("iteration over %s at line %d" % (short(v), getattr(st, "lineno", 0)))

    # -- tests ---------------------------------------------------------------------------
    def test(self, node, env, fi):
        txt = ast.unparse(node)
        if txt in POLICY_TESTS:
            return self.cfg[POLICY_TESTS[txt]]
        if "numel_out" in txt:
            # does the step map provide dense-output coefficients? (rk: yes)
            return not self.cfg["dense"]
        if isinstance(node, ast.BoolOp):
            if isinstance(node.op, ast.And):
                return all(self.test(v, env, fi) for v in node.values)
            return any(self.test(v, env, fi) for v in node.values)
        if isinstance(node, ast.UnaryOp) and isinstance(node.op, ast.Not):
            return not self.test(node.operand, env, fi)
        if isinstance(node, ast.Compare) and len(node.ops) > 1:
            # a chained comparison is the conjunction of its links
            operands = [node.left] + list(node.comparators)
            return all(self.test(ast.copy_location(ast.Compare(left=operands[q], ops=[node.ops[q]], comparators=[operands[q + 1]]), node), env, fi) for q in range(len(node.ops)))
        if isinstance(node, ast.Compare) and len(node.ops) == 1:
            a = self.ev(node.left, env, fi)
            b = self.ev(node.comparators[0], env, fi)
            op = node.ops[0]
            if isinstance(op, (ast.Is, ast.IsNot)):
                r = (a is None) == (b is None) if (a is None or b is None) else (a is b)
                if a is None or b is None:
                    r = (a is None and b is None)
                return r if isinstance(op, ast.Is) else not r
            if isinstance(a, (int, float, str)) and isinstance(b, (int, float, str)) or (isinstance(a, bool) and isinstance(b, bool)):
                if isinstance(op, ast.Eq): return a == b
                if isinstance(op, ast.NotEq): return a != b
                if isinstance(op, ast.Lt): return a < b
                if isinstance(op, ast.LtE): return a <= b
                if isinstance(op, ast.Gt): return a > b
                if isinstance(op, ast.GtE): return a >= b
            if isinstance(op, (ast.In, ast.NotIn)) and isinstance(b, (list, dict, tuple, str)) and not isinstance(a, Sym):
                r = a in b
                return r if isinstance(op, ast.In) else not r
            raise LayoutUnknown("test %s at %s:%d (operands %s, %s)" % (txt, fi.qualname, node.lineno, short(a), short(b)))
        v = self.ev(node, env, fi)
        if isinstance(v, (bool, int, list, dict, str)) or v is None:
            return bool(v)
        raise LayoutUnknown("truth value of %s at %s:%d" % (txt, fi.qualname, node.lineno))

    # -- expressions ----------------------------------------------------------------------
    def binop(self, op, a, b):
        if isinstance(a, bool):
            a = int(a)
        if isinstance(b, bool):
            b = int(b)
        if isinstance(a, Arr) and not isinstance(b, list):
            return Arr([self.binop(op, x, b) for x in a])
        if isinstance(b, Arr) and not isinstance(a, list):
            return Arr([self.binop(op, a, x) for x in b])
        if isinstance(a, (int, float)) and isinstance(b, (int, float)):
            if isinstance(op, ast.Add): return a + b
            if isinstance(op, ast.Sub): return a - b
            if isinstance(op, ast.Mult): return a * b
            if isinstance(op, ast.FloorDiv): return a // b
            if isinstance(op, ast.Div): return a / b
            if isinstance(op, ast.Mod): return a % b
            if isinstance(op, ast.Pow): return a ** b
        if isinstance(a, list) and isinstance(b, list) and isinstance(op, ast.Add):
            return a + b
        if isinstance(a, list) and isinstance(b, int) and isinstance(op, ast.Mult):
            return a * b
        if isinstance(b, list) and isinstance(a, int) and isinstance(op, ast.Mult):
            return b * a
        if isinstance(a, str) and isinstance(b, str) and isinstance(op, ast.Add):
            return a + b
        return Sym("binop", type(op).__name__, a, b)

    def ev(self, node, env, fi=None):
        m = getattr(self, "_e_" + type(node).__name__, None)
        if m is None:
            return Sym("expr", ast.unparse(node))
        return m(node, env, fi)

    def _e_Constant(self, n, env, fi):
        return n.value

    def _e_Name(self, n, env, fi):
        if n.id in env:
            return env[n.id]
        if n.id in ("nan", "inf"):
            return Sym(n.id)
        if n.id in ("True", "False", "None"):
            return {"True": True, "False": False, "None": None}[n.id]
        return Sym("global", n.id)

    def _e_Attribute(self, n, env, fi):
        o = self.ev(n.value, env, fi)
        if isinstance(o, Obj):
            if n.attr in o.attrs:
                return o.attrs[n.attr]
            if o.name == "stage":
                return self.stage_attr(n.attr)
            return Sym("attr", o.name, n.attr)
        if isinstance(o, Sym) and o.op == "global":
            return Sym("global", o.args[0] + "." + n.attr)
        return Sym("attr", o, n.attr)

    def stage_attr(self, name):
        if name in ("states", "controls", "algebraics", "qstates"):
            present = {"states": True, "controls": self.cfg["nu"], "algebraics": self.cfg["nz"], "qstates": True}[name]
            return Sym("stagelist", "stage." + name, present)
        if name in ("variables", "parameters"):
            return Sym("stagedict", name)
        if name == "_constraints":
            return Sym("constraints")
        if name == "master":
            return Obj("master", {"_method": Obj("mastermethod", {"opti": Sym("opti")})})
        return Sym("attr", "stage", name)

    def _e_Subscript(self, n, env, fi):
        o = self.ev(n.value, env, fi)
        if isinstance(o, Sym) and o.op == "stagedict":
            key = self.ev(n.slice, env, fi)
            return Sym("stagelist", "stage.%s[%r]" % (o.args[0], key), key in ("", "control", "control+", "states"))
        if isinstance(o, Sym) and o.op == "constraints":
            return []
        if isinstance(n.slice, ast.Slice):
            lo = self.ev(n.slice.lower, env, fi) if n.slice.lower is not None else None
            hi = self.ev(n.slice.upper, env, fi) if n.slice.upper is not None else None
            if isinstance(o, list) and all(x is None or isinstance(x, int) for x in (lo, hi)):
                return o[lo:hi]
            return Sym("get", o, ("slice", freeze(lo), freeze(hi)))
        if isinstance(n.slice, ast.Tuple):
            key = []
            for e in n.slice.elts:
                if isinstance(e, ast.Slice):
                    lo = self.ev(e.lower, env, fi) if e.lower is not None else None
                    hi = self.ev(e.upper, env, fi) if e.upper is not None else None
                    key.append(("slice", freeze(lo), freeze(hi)))
                else:
                    key.append(freeze(self.ev(e, env, fi)))
            return Sym("get", o, tuple(key))
        idx = self.ev(n.slice, env, fi)
        if isinstance(o, list) and isinstance(idx, int):
            try:
                return o[idx]
            except IndexError:
                raise LayoutUnknown("index %d out of range (len %d) in %s at %s:%d" % (idx, len(o), ast.unparse(n), fi.qualname if fi else "?", n.lineno))
        if isinstance(o, dict):
            return o.get(freeze(idx), Sym("missing", freeze(idx)))
        return Sym("get", o, freeze(idx))

    def _e_BinOp(self, n, env, fi):
        return self.binop(n.op, self.ev(n.left, env, fi), self.ev(n.right, env, fi))

    def _e_UnaryOp(self, n, env, fi):
        v = self.ev(n.operand, env, fi)
        if isinstance(n.op, ast.USub) and isinstance(v, (int, float)):
            return -v
        if isinstance(n.op, ast.Not):
            if isinstance(v, (bool, int, list)) or v is None:
                return not v
        return Sym("unary", type(n.op).__name__, v)

    def _e_BoolOp(self, n, env, fi):
        try:
            return self.test(n, env, fi)
        except LayoutUnknown:
            return Sym("boolop", ast.unparse(n))

    def _e_Compare(self, n, env, fi):
        try:
            return self.test(n, env, fi)
        except LayoutUnknown:
            return Sym("compare", *[self.ev(x, env, fi) for x in [n.left] + n.comparators])

    def _e_IfExp(self, n, env, fi):
        try:
            t = self.test(n.test, env, fi)
        except LayoutUnknown:
            return Sym("ifexp", ast.unparse(n.test), self.ev(n.body, env, fi), self.ev(n.orelse, env, fi))
        return self.ev(n.body if t else n.orelse, env, fi)

    def _e_List(self, n, env, fi):
        out = []
        for e in n.elts:
            if isinstance(e, ast.Starred):
                v = self.ev(e.value, env, fi)
                out.extend(v if isinstance(v, list) else [Sym("star", v)])
            else:
                out.append(self.ev(e, env, fi))
        return out

    def _e_Tuple(self, n, env, fi):
        return tuple(self.ev(e, env, fi) for e in n.elts)

    def _e_Dict(self, n, env, fi):
        return Sym("dict", ast.unparse(n)[:40])

    def _e_ListComp(self, n, env, fi):
        out = []

        def rec(gi, e2):
            if gi == len(n.generators):
                out.append(self.ev(n.elt, e2, fi))
                return
            g = n.generators[gi]
            for item in self.iterable(self.ev(g.iter, e2, fi), n):
                e3 = dict(e2)
                self.assign(g.target, item, e3, fi)
                if all(self.test(c, e3, fi) for c in g.ifs):
                    rec(gi + 1, e3)
        rec(0, dict(env))
        return out

    def _e_Starred(self, n, env, fi):
        return Sym("star", self.ev(n.value, env, fi))

    def _e_JoinedStr(self, n, env, fi):
        return "<fstr>"

    def _e_Lambda(self, n, env, fi):
        return Sym("lambda")

    def _e_Call(self, n, env, fi):
        f = n.func
        args = []
        for a in n.args:
            if isinstance(a, ast.Starred):
                v = self.ev(a.value, env, fi)
                args.extend(v if isinstance(v, list) else [Sym("star", v)])
            else:
                args.append(self.ev(a, env, fi))
        kwargs = {k.arg: self.ev(k.value, env, fi) for k in n.keywords if k.arg is not None}
        # builtins
        if isinstance(f, ast.Name):
            nm = f.id
            if nm == "range" and all(isinstance(a, (int, bool)) for a in args):
                return range(*[int(a) for a in args])
            if nm == "len" and len(args) == 1 and isinstance(args[0], (list, tuple, dict, str)):
                return len(args[0])
            if nm == "list" and len(args) == 1:
                if isinstance(args[0], (range, list, tuple)):
                    return list(args[0])
                return self.iterable(args[0], n)
            if nm == "enumerate":
                return Sym("enumerate", args[0]) if not isinstance(args[0], (list, range)) else [(i, x) for i, x in enumerate(args[0])]
            if nm == "zip":
                if all(isinstance(a, (list, tuple, range)) for a in args):
                    return [tuple(x) for x in zip(*args)]
                return Sym("zip", *args)
            if nm in ("int",) and len(args) == 1 and isinstance(args[0], (int, bool)):
                return int(args[0])
            if nm == "isinstance":
                return False
            if nm == "hasattr":
                return False
            if nm in ("dict", "HashOrderedDict", "HashDict", "OrderedDict") and not args:
                return dict(kwargs)
            if nm == "horzsplit" and len(args) == 2:
                w = args[1]
                if isinstance(w, Sym) and w.op == "binop" and w.args[0] == "FloorDiv" and isinstance(w.args[2], int):
                    return [Sym("piece", args[0], j) for j in range(w.args[2])]
            return Sym("call", nm, tuple(freeze(a) for a in args), tuple(sorted((k, freeze(v)) for k, v in kwargs.items())), self.site(n, env))
        if isinstance(f, ast.Attribute):
            recv_txt = ast.unparse(f.value)
            if recv_txt in ("np", "numpy") and f.attr == "array" and len(args) == 1 and isinstance(args[0], list):
                return Arr(args[0])
            # list / dict methods on concrete containers
            o = self.ev(f.value, env, fi)
            if isinstance(o, list):
                if f.attr == "append":
                    o.append(args[0]); return None
                if f.attr == "extend":
                    o.extend(args[0] if isinstance(args[0], (list, tuple)) else self.iterable(args[0], n)); return None
                if f.attr == "insert":
                    o.insert(args[0], args[1]); return None
                if f.attr == "copy":
                    return list(o)
            if isinstance(o, dict):
                if f.attr in ("values",):
                    return list(o.values())
                if f.attr in ("keys",):
                    return list(o.keys())
                if f.attr in ("items",):
                    return [(k, v) for k, v in o.items()]
            # self.m(...) and Base.m(self, ...)
            if isinstance(o, Obj) and o.name == "self" and f.attr in INLINE:
                g = self.prog.resolve(self.cname, f.attr)
                if g is not None:
                    return self.call_function(g, [o] + args, kwargs)
            if recv_txt in self.prog.classes and args and isinstance(args[0], Obj) and args[0].name == "self" and f.attr in INLINE | {"__init__"}:
                g = self.prog.resolve(recv_txt, f.attr)
                if g is not None:
                    return self.call_function(g, args, kwargs)
            if recv_txt == "opti" or recv_txt.endswith(".opti"):
                if f.attr in ("variable", "parameter"):
                    self.counter += 1
                    return Sym("opti." + f.attr, self.site(n, env), self.counter)
                return None if f.attr in ("subject_to", "set_value", "set_initial", "add_objective") else Sym("call", "opti." + f.attr)
            if isinstance(o, Obj) and o.name == "time_grid":
                self.counter += 1
                return Sym("grid." + f.attr, tuple(freeze(a) for a in args[1:2]), self.counter) if f.attr.startswith("get_") else Sym("grid." + f.attr, tuple(freeze(a) for a in args))
            return Sym("call", (freeze(o) if not isinstance(o, Obj) else o.name) if not isinstance(o, Sym) else o.key(), f.attr,
                       tuple(freeze(a) for a in args), tuple(sorted((k, freeze(v)) for k, v in kwargs.items())))
        if isinstance(f, ast.Call) or isinstance(f, ast.Subscript):
            return Sym("call", freeze(self.ev(f, env, fi)), tuple(freeze(a) for a in args))
        # call of a local symbolic function value, e.g. F(x0=...)
        return Sym("call", ast.unparse(f), tuple(freeze(a) for a in args), tuple(sorted((k, freeze(v)) for k, v in kwargs.items())))

    def site(self, n, env):
        return getattr(n, "lineno", 0)
